"""Independent recursive-descent parser for the SQL subset the odata-query backends emit.

Nothing here is derived from /repo.  Two precedence modes:

  dialect='sqlite'    SQLite's documented operator precedence (highest first; NOT may also start an operand)
                        unary - +  |  ||  |  * / %  |  + -  |  < <= > >=  |
                        = == != <> IS IN LIKE BETWEEN ISNULL NOTNULL (left-assoc)  |  NOT  |  AND  |  OR
  dialect='standard'  SQL-92/99 reading: comparison-level predicates are NOT associative.  An un-parenthesised
                      chain such as  a = b = c,  x LIKE p = TRUE,  TRUE = x LIKE p  is grouped differently by
                      different engines (SQLite: left to right; PostgreSQL: LIKE/IN before = ; Trino: syntax error)
                      and is rejected as ill-formed (kind 'comparison-chain').

Trees are plain tuples:
  ('int', n) ('float', text) ('str', s) ('null',) ('bool', b) ('param', index, value)
  ('typed', 'DATE'|'TIME'|'TIMESTAMP', s)   ('interval', s, unit)      ('kw', 'CURRENT_TIMESTAMP')
  ('col', qualifier|None, name)
  ('neg', e) ('not', e)
  ('bin', op, l, r)            op in + - * / % ||
  ('cmp', op, l, r)            op in = != < <= > >=     (== and <> are normalised)
  ('isnull', negated, e)       ('is', negated, l, r)
  ('in', negated, e, [items])  ('insub', negated, e, select)
  ('like', negated, e, pattern, escape|None)
  ('between', negated, e, lo, hi)
  ('and', l, r) ('or', l, r)
  ('call', NAME, [args])       ('cast', e, TYPE)   ('extract', FIELD, e)
  ('substring', e, from, for|None)   ('position', needle, haystack)   ('trimspec', spec, chars|None, e)
  ('case', operand|None, [(when, then), ...], else|None)
  ('exists', select)  ('subquery', select)  ('row', [items])
  ('select', {distinct, cols: [(expr, alias)], frm: ('table', name, alias), joins: [('join', kind, name, alias, on)],
             where, order, limit, offset})

Errors
  SqlIllFormed   the text is not SQL: comment start (`--`, `/*`), illegal character, unterminated literal, unbalanced parenthesis, bare word
                 that is neither keyword nor function nor known identifier (e.g. `None`), missing operand,
                 leftover tokens, placeholder without a bound parameter.  `.kind` names the class.
  SqlUnsupported recognisable SQL outside this parser's subset (GROUP BY, UNION, window functions ...).
(Functions are parsed generically by name; whether a function is *modelled* is the semantic layer's business.)
"""
from __future__ import annotations

import re
from typing import Any, Iterable, Iterator, List, Optional, Sequence, Set, Tuple


class SqlIllFormed(Exception):
    def __init__(self, msg: str, kind: str = "syntax", pos: int = -1):
        super().__init__(msg)
        self.kind = kind
        self.pos = pos


class SqlUnsupported(Exception):
    pass


_TOK = re.compile(r"""
  (?P<ws>\s+)
 |(?P<num>(?:\d+(?:\.\d*)?|\.\d+)(?:[eE][+-]?\d+)?)
 |(?P<qid>"(?:[^"]|"")*")
 |(?P<str>'(?:[^']|'')*')
 |(?P<op><=|>=|!=|<>|==|\|\||%%|%s|[-+*/%()=<>,.?])
 |(?P<word>[A-Za-z_][A-Za-z_0-9]*)
""", re.X)

RESERVED = {
    "SELECT", "FROM", "WHERE", "AND", "OR", "NOT", "IS", "IN", "LIKE", "ESCAPE", "BETWEEN", "CASE", "WHEN", "THEN",
    "ELSE", "END", "AS", "ON", "JOIN", "LEFT", "RIGHT", "FULL", "INNER", "OUTER", "CROSS", "EXISTS", "NULL", "TRUE",
    "FALSE", "LIMIT", "OFFSET", "ORDER", "BY", "GROUP", "HAVING", "DISTINCT", "FOR", "UNION", "ASC", "DESC",
    "ISNULL", "NOTNULL", "USING", "INTERSECT", "EXCEPT",
}
NILADIC = {"CURRENT_TIMESTAMP", "CURRENT_DATE", "CURRENT_TIME"}
TYPED_LITERALS = {"DATE", "TIME", "TIMESTAMP"}
INTERVAL_UNITS = {"YEAR", "MONTH", "DAY", "HOUR", "MINUTE", "SECOND"}
_CMP = {"=": "=", "==": "=", "!=": "!=", "<>": "!="}
_REL = ("<", "<=", ">", ">=")


def tokenize(text: str, paramstyle: Optional[str] = None) -> List[Tuple[str, str, int]]:
    """-> [(kind, value, offset)].  paramstyle None: placeholders are illegal; 'format': %s / %% ; 'qmark': ?"""
    if not isinstance(text, str):
        raise SqlIllFormed(f"the backend returned {type(text).__name__}, not text", "not-text")
    out: List[Tuple[str, str, int]] = []
    i = 0
    while i < len(text):
        if text.startswith("--", i) or text.startswith("/*", i):
            # a comment start: whatever follows is not part of the expression any more (`--"a" = 3`, `"a" = --3`)
            raise SqlIllFormed(f"comment start {text[i:i + 2]!r} at offset {i}: the rest of the text is swallowed "
                               f"({text[i:i + 14]!r})", "comment", i)
        m = _TOK.match(text, i)
        if not m or m.end() == i:
            ch = text[i]
            kind = "unterminated-literal" if ch in "'\"" else "illegal-character"
            raise SqlIllFormed(f"{kind.replace('-', ' ')} at offset {i}: {text[i:i + 12]!r}", kind, i)
        k = m.lastgroup
        v = m.group(k)
        if k == "op" and v in ("%s", "%%", "?"):
            if v == "?":
                if paramstyle != "qmark":
                    raise SqlIllFormed(f"placeholder '?' at offset {i} without parameters", "placeholder", i)
                out.append(("ph", v, i))
            elif paramstyle == "format":
                out.append(("ph", v, i) if v == "%s" else ("op", "%", i))
            else:                       # plain text: '%s' / '%%' are just the operator % followed by something
                out.append(("op", "%", i))
                i += 1
                continue
        elif k == "str":
            s = v[1:-1].replace("''", "'")
            if paramstyle == "format":
                s = s.replace("%%", "%")
            out.append(("str", s, i))
        elif k == "qid":
            out.append(("qid", v[1:-1].replace('""', '"'), i))
        elif k != "ws":
            out.append((k, v, i))
        i = m.end()
    return out


class _P:
    def __init__(self, toks, dialect: str, params: Optional[Sequence[Any]], idents: Optional[Iterable[str]]):
        self.t = toks
        self.i = 0
        self.dialect = dialect
        self.params = list(params) if params is not None else None
        self.nparam = 0
        self.idents: Set[str] = {x.upper() for x in (idents or ())}

    # -------------------------------------------------------------- token helpers
    def peek(self, k: int = 0):
        j = self.i + k
        return self.t[j] if j < len(self.t) else ("eof", "", -1)

    def at_word(self, *words: str, k: int = 0) -> bool:
        kind, v, _ = self.peek(k)
        return kind == "word" and v.upper() in words

    def at_op(self, *ops: str, k: int = 0) -> bool:
        kind, v, _ = self.peek(k)
        return kind == "op" and v in ops

    def next(self):
        tok = self.peek()
        if tok[0] == "eof":
            raise SqlIllFormed("unexpected end of text (missing operand or closing token)", "missing-operand")
        self.i += 1
        return tok

    def expect_op(self, op: str):
        kind, v, pos = self.peek()
        if not (kind == "op" and v == op):
            what = "end of text" if kind == "eof" else repr(v)
            raise SqlIllFormed(f"expected {op!r} but found {what}", "unbalanced" if op in "()" else "syntax", pos)
        self.i += 1

    def expect_word(self, w: str):
        kind, v, pos = self.peek()
        if not (kind == "word" and v.upper() == w):
            what = "end of text" if kind == "eof" else repr(v)
            raise SqlIllFormed(f"expected {w} but found {what}", "syntax", pos)
        self.i += 1

    # -------------------------------------------------------------- expressions
    def expr(self):
        l = self.and_()
        while self.at_word("OR"):
            self.next()
            l = ("or", l, self.and_())
        return l

    def and_(self):
        l = self.not_()
        while self.at_word("AND"):
            self.next()
            l = ("and", l, self.not_())
        return l

    def not_(self):
        if self.at_word("NOT"):
            self.next()
            return ("not", self.not_())
        return self.eqlevel() if self.dialect == "sqlite" else self.predicate()

    def _is_eqlevel_start(self) -> bool:
        if self.at_op("=", "==", "!=", "<>"):
            return True
        if self.at_word("IS", "IN", "LIKE", "BETWEEN", "ISNULL", "NOTNULL"):
            return True
        if self.at_word("NOT") and self.at_word("IN", "LIKE", "BETWEEN", "NULL", k=1):
            return True
        return False

    def _suffix(self, l, operand):
        """One comparison-level suffix applied to l; `operand` parses the right operand."""
        kind, v, _ = self.peek()
        if kind == "op" and v in _CMP:
            self.next()
            return ("cmp", _CMP[v], l, operand())
        if kind == "op" and v in _REL:
            self.next()
            return ("cmp", v, l, operand())
        if self.at_word("ISNULL"):
            self.next()
            return ("isnull", False, l)
        if self.at_word("NOTNULL"):
            self.next()
            return ("isnull", True, l)
        if self.at_word("IS"):
            self.next()
            neg = False
            if self.at_word("NOT"):
                self.next()
                neg = True
            if self.at_word("NULL"):
                self.next()
                return ("isnull", neg, l)
            if self.at_word("DISTINCT"):
                self.next()
                self.expect_word("FROM")
                return ("is", not neg, l, operand())
            return ("is", neg, l, operand())
        neg = False
        if self.at_word("NOT"):
            self.next()
            neg = True
            if self.at_word("NULL"):
                self.next()
                return ("isnull", True, l)
        if self.at_word("IN"):
            self.next()
            self.expect_op("(")
            if self.at_word("SELECT"):
                sel = self.select()
                self.expect_op(")")
                return ("insub", neg, l, sel)
            items = []
            if not self.at_op(")"):
                items.append(self.expr())
                while self.at_op(","):
                    self.next()
                    items.append(self.expr())
            self.expect_op(")")
            return ("in", neg, l, items)
        if self.at_word("LIKE"):
            self.next()
            pat = operand()
            esc = None
            if self.at_word("ESCAPE"):
                self.next()
                esc = operand()
            return ("like", neg, l, pat, esc)
        if self.at_word("BETWEEN"):
            self.next()
            lo = operand()
            self.expect_word("AND")
            hi = operand()
            return ("between", neg, l, lo, hi)
        kind, v, pos = self.peek()
        raise SqlIllFormed(f"unexpected {v!r} after NOT", "syntax", pos)

    # sqlite: two left-associative levels
    def eqlevel(self):
        l = self.rel()
        while self._is_eqlevel_start():
            l = self._suffix(l, self.rel)
        return l

    def rel(self):
        l = self.add()
        while self.at_op(*_REL):
            op = self.next()[1]
            l = ("cmp", op, l, self.add())
        return l

    # standard: one non-associative predicate
    def predicate(self):
        l = self.add()
        if self._is_eqlevel_start() or self.at_op(*_REL):
            l = self._suffix(l, self.add)
            if self._is_eqlevel_start() or self.at_op(*_REL):
                kind, v, pos = self.peek()
                raise SqlIllFormed(
                    f"un-parenthesised chain of comparison-level operators at {v!r}: not associative in standard SQL "
                    "(engines group it differently or reject it)", "comparison-chain", pos)
        return l

    def add(self):
        l = self.mul()
        while self.at_op("+", "-"):
            op = self.next()[1]
            l = ("bin", op, l, self.mul())
        return l

    def mul(self):
        l = self.cat()
        while self.at_op("*", "/", "%"):
            op = self.next()[1]
            l = ("bin", op, l, self.cat())
        return l

    def cat(self):
        l = self.unary()
        while self.at_op("||"):
            self.next()
            l = ("bin", "||", l, self.unary())
        return l

    def unary(self):
        if self.at_op("-"):
            self.next()
            e = self.unary()
            if e[0] == "int":
                return ("int", -e[1])
            if e[0] == "float":
                return ("float", e[1][1:] if e[1].startswith("-") else "-" + e[1])
            return ("neg", e)
        if self.at_op("+"):
            self.next()
            return self.unary()
        return self.primary()

    # -------------------------------------------------------------- primaries
    def primary(self):
        kind, v, pos = self.peek()
        if kind == "eof":
            raise SqlIllFormed("unexpected end of text (missing operand)", "missing-operand")
        if kind == "num":
            self.next()
            if re.fullmatch(r"\d+", v):
                return ("int", int(v))
            return ("float", v)
        if kind == "str":
            self.next()
            return ("str", v)
        if kind == "ph":
            self.next()
            if self.params is None or self.nparam >= len(self.params):
                raise SqlIllFormed(f"placeholder {v!r} at offset {pos} has no bound parameter", "placeholder", pos)
            self.nparam += 1
            return ("param", self.nparam - 1, self.params[self.nparam - 1])
        if kind == "qid":
            return self.column()
        if kind == "op" and v == "(":
            self.next()
            if self.at_word("SELECT"):
                sel = self.select()
                self.expect_op(")")
                return ("subquery", sel)
            if self.at_op(")"):
                raise SqlIllFormed(f"empty parentheses at offset {pos}", "missing-operand", pos)
            e = self.expr()
            if self.at_op(","):
                items = [e]
                while self.at_op(","):
                    self.next()
                    items.append(self.expr())
                self.expect_op(")")
                return ("row", items)
            self.expect_op(")")
            return e
        if kind == "word":
            return self.word()
        raise SqlIllFormed(f"unexpected {v!r} at offset {pos} where an operand must start", "missing-operand", pos)

    def column(self):
        parts = []
        kind, v, pos = self.next()
        parts.append(v)
        while self.at_op("."):
            self.next()
            kind, v, pos = self.peek()
            if kind == "qid" or (kind == "word" and v.upper() not in RESERVED):
                self.next()
                parts.append(v)
            elif kind == "op" and v == "*":
                self.next()
                parts.append("*")
            else:
                raise SqlIllFormed(f"identifier expected after '.' at offset {pos}", "syntax", pos)
        if len(parts) == 1:
            return ("col", None, parts[0])
        if len(parts) == 2:
            return ("col", parts[0], parts[1])
        return ("col", ".".join(parts[:-1]), parts[-1])

    def word(self):
        kind, v, pos = self.peek()
        u = v.upper()
        nxt_paren = self.at_op("(", k=1)
        if u == "NULL":
            self.next()
            return ("null",)
        if u in ("TRUE", "FALSE"):
            self.next()
            return ("bool", u == "TRUE")
        if u == "CASE":
            return self.case()
        if u == "EXISTS":
            self.next()
            self.expect_op("(")
            sel = self.select()
            self.expect_op(")")
            return ("exists", sel)
        if u == "CAST" and nxt_paren:
            self.next()
            self.next()
            e = self.expr()
            self.expect_word("AS")
            ty = self.typename()
            self.expect_op(")")
            return ("cast", e, ty)
        if u == "EXTRACT" and nxt_paren:
            self.next()
            self.next()
            fk, fv, fp = self.next()
            if fk != "word":
                raise SqlIllFormed(f"EXTRACT field expected at offset {fp}", "syntax", fp)
            self.expect_word("FROM")
            e = self.expr()
            self.expect_op(")")
            return ("extract", fv.upper(), e)
        if u == "SUBSTRING" and nxt_paren:
            self.next()
            self.next()
            x = self.expr()
            if self.at_word("FROM"):
                self.next()
                a = self.expr()
                b = None
                if self.at_word("FOR"):
                    self.next()
                    b = self.expr()
                self.expect_op(")")
                return ("substring", x, a, b)
            args = [x]
            while self.at_op(","):
                self.next()
                args.append(self.expr())
            self.expect_op(")")
            return ("call", "SUBSTRING", args)
        if u == "POSITION" and nxt_paren:
            self.next()
            self.next()
            needle = self.add()
            self.expect_word("IN")
            hay = self.add()
            self.expect_op(")")
            return ("position", needle, hay)
        if u == "TRIM" and nxt_paren and (self.at_word("LEADING", "TRAILING", "BOTH", k=2)):
            self.next()
            self.next()
            spec = self.next()[1].upper()
            chars = None
            if not self.at_word("FROM"):
                chars = self.expr()
            self.expect_word("FROM")
            e = self.expr()
            self.expect_op(")")
            return ("trimspec", spec, chars, e)
        if u in TYPED_LITERALS and self.peek(1)[0] == "str":
            self.next()
            return ("typed", u, self.next()[1])
        if u == "INTERVAL" and self.peek(1)[0] == "str":
            self.next()
            s = self.next()[1]
            uk, uv, up = self.peek()
            if uk != "word" or uv.upper() not in INTERVAL_UNITS:
                raise SqlIllFormed(f"INTERVAL unit expected at offset {up}", "syntax", up)
            self.next()
            return ("interval", s, uv.upper())
        if u in NILADIC and not nxt_paren:
            self.next()
            return ("kw", u)
        if u == "NOT" and self.dialect == "sqlite":
            # SQLite's grammar has `expr ::= NOT expr` usable wherever an operand may start; the operand of NOT then
            # extends over every operator that binds tighter than NOT:  a = NOT b = c  is  a = (NOT (b = c))
            self.next()
            return ("not", self.not_())
        if u in RESERVED:
            kind_ = "not-as-operand" if u == "NOT" else "missing-operand"
            raise SqlIllFormed(f"keyword {v} at offset {pos} where an operand must start", kind_, pos)
        if nxt_paren:
            return self.call()
        if self.at_op(".", k=1) or u in self.idents:
            return self.column()
        raise SqlIllFormed(f"bare word {v!r} at offset {pos}: neither a quoted identifier, a keyword nor a function "
                           "call", "bare-word", pos)

    def call(self):
        name = self.next()[1].upper()
        self.expect_op("(")
        args: List[Any] = []
        if self.at_op("*"):
            self.next()
            args.append(("star",))
        elif not self.at_op(")"):
            if self.at_word("DISTINCT"):
                self.next()
                args.append(("distinct", self.expr()))
            else:
                args.append(self.expr())
            while self.at_op(","):
                self.next()
                args.append(self.expr())
        self.expect_op(")")
        if self.at_word("OVER") or self.at_word("FILTER"):
            raise SqlUnsupported("window / filter clause")
        return ("call", name, args)

    def typename(self) -> str:
        kind, v, pos = self.next()
        if kind != "word":
            raise SqlIllFormed(f"type name expected at offset {pos}", "syntax", pos)
        name = [v.upper()]
        while self.peek()[0] == "word" and self.peek()[1].upper() not in RESERVED:
            name.append(self.next()[1].upper())
        if self.at_op("("):
            self.next()
            while not self.at_op(")"):
                self.next()
            self.expect_op(")")
        return " ".join(name)

    def case(self):
        self.expect_word("CASE")
        operand = None
        if not self.at_word("WHEN"):
            operand = self.expr()
        whens = []
        if not self.at_word("WHEN"):
            kind, v, pos = self.peek()
            raise SqlIllFormed(f"CASE without WHEN at offset {pos}", "syntax", pos)
        while self.at_word("WHEN"):
            self.next()
            w = self.expr()
            self.expect_word("THEN")
            t = self.expr()
            whens.append((w, t))
        els = None
        if self.at_word("ELSE"):
            self.next()
            els = self.expr()
        self.expect_word("END")
        return ("case", operand, whens, els)

    # -------------------------------------------------------------- SELECT (for EXISTS / IN sub-queries)
    def name(self) -> str:
        kind, v, pos = self.peek()
        if kind == "qid" or (kind == "word" and v.upper() not in RESERVED):
            self.next()
            n = v
            while self.at_op("."):
                self.next()
                k2, v2, p2 = self.next()
                if k2 not in ("qid", "word"):
                    raise SqlIllFormed(f"name expected at offset {p2}", "syntax", p2)
                n = v2            # schema-qualified table: keep the last part
            return n
        raise SqlIllFormed(f"table name expected at offset {pos}", "syntax", pos)

    def from_item(self):
        if self.at_op("("):
            raise SqlUnsupported("parenthesised FROM item / derived table")
        table = self.name()
        alias = None
        if self.at_word("AS"):
            self.next()
            alias = self.name()
        else:
            kind, v, _ = self.peek()
            if kind == "qid" or (kind == "word" and v.upper() not in RESERVED):
                alias = self.name()
        return ("table", table, alias)

    def select(self):
        self.expect_word("SELECT")
        distinct = False
        if self.at_word("DISTINCT"):
            self.next()
            distinct = True
        cols = []
        while True:
            if self.at_op("*"):
                self.next()
                e: Any = ("star",)
            else:
                e = self.expr()
            alias = None
            if self.at_word("AS"):
                self.next()
                alias = self.name()
            cols.append((e, alias))
            if self.at_op(","):
                self.next()
                continue
            break
        frm = None
        joins = []
        if self.at_word("FROM"):
            self.next()
            frm = self.from_item()
            while True:
                if self.at_op(","):
                    self.next()
                    _, t, a = self.from_item()
                    joins.append(("join", "cross", t, a, None))
                    continue
                kind = None
                if self.at_word("LEFT"):
                    self.next()
                    if self.at_word("OUTER"):
                        self.next()
                    kind = "left"
                elif self.at_word("INNER"):
                    self.next()
                    kind = "inner"
                elif self.at_word("CROSS"):
                    self.next()
                    kind = "cross"
                elif self.at_word("RIGHT", "FULL"):
                    raise SqlUnsupported("RIGHT/FULL join")
                elif self.at_word("JOIN"):
                    kind = "inner"
                if kind is None:
                    break
                self.expect_word("JOIN")
                _, t, a = self.from_item()
                on = None
                if self.at_word("ON"):
                    self.next()
                    on = self.expr()
                elif self.at_word("USING"):
                    raise SqlUnsupported("JOIN ... USING")
                joins.append(("join", kind, t, a, on))
        where = None
        if self.at_word("WHERE"):
            self.next()
            where = self.expr()
        if self.at_word("GROUP", "HAVING", "UNION", "INTERSECT", "EXCEPT"):
            raise SqlUnsupported(self.peek()[1].upper())
        order = []
        if self.at_word("ORDER"):
            self.next()
            self.expect_word("BY")
            while True:
                e = self.expr()
                d = "ASC"
                if self.at_word("ASC", "DESC"):
                    d = self.next()[1].upper()
                order.append((e, d))
                if self.at_op(","):
                    self.next()
                    continue
                break
        limit = offset = None
        if self.at_word("LIMIT"):
            self.next()
            limit = self.expr()
            if self.at_word("OFFSET"):
                self.next()
                offset = self.expr()
        return ("select", {"distinct": distinct, "cols": cols, "frm": frm, "joins": joins, "where": where,
                           "order": order, "limit": limit, "offset": offset})


def _finish(p: _P, what: str):
    if p.i != len(p.t):
        kind, v, pos = p.peek()
        k = "unbalanced" if (kind == "op" and v == ")") else "leftover-tokens"
        raise SqlIllFormed(f"leftover tokens after the {what}, starting with {v!r} at offset {pos}", k, pos)
    if p.params is not None and p.nparam != len(p.params):
        raise SqlIllFormed(f"{len(p.params)} parameters but {p.nparam} placeholders", "placeholder")


def parse_expr(text: str, dialect: str = "sqlite", params: Optional[Sequence[Any]] = None,
               paramstyle: Optional[str] = None, idents: Optional[Iterable[str]] = None):
    """Parse one SQL (boolean) expression; the whole text must be consumed."""
    if dialect not in ("sqlite", "standard"):
        raise ValueError(dialect)
    toks = tokenize(text, paramstyle)
    if not toks:
        raise SqlIllFormed("empty text", "missing-operand")
    p = _P(toks, dialect, params, idents)
    e = p.expr()
    _finish(p, "expression")
    return e


def parse_select(text: str, dialect: str = "sqlite", params: Optional[Sequence[Any]] = None,
                 paramstyle: Optional[str] = None, idents: Optional[Iterable[str]] = None):
    toks = tokenize(text, paramstyle)
    p = _P(toks, dialect, params, idents)
    s = p.select()
    _finish(p, "statement")
    return s


# ------------------------------------------------------------------ tree utilities
def walk(t) -> Iterator[tuple]:
    """All tuple nodes of a tree (pre-order), descending through lists and dicts."""
    if isinstance(t, tuple):
        if t and isinstance(t[0], str):
            yield t
        for x in t[1:] if (t and isinstance(t[0], str)) else t:
            yield from walk(x)
    elif isinstance(t, list):
        for x in t:
            yield from walk(x)
    elif isinstance(t, dict):
        for x in t.values():
            yield from walk(x)


def map_tree(t, f):
    """Bottom-up rewrite: f(node) is applied to every tagged tuple after its children were rewritten."""
    if isinstance(t, tuple):
        if t and isinstance(t[0], str):
            return f((t[0],) + tuple(map_tree(x, f) for x in t[1:]))
        return tuple(map_tree(x, f) for x in t)
    if isinstance(t, list):
        return [map_tree(x, f) for x in t]
    if isinstance(t, dict):
        return {k: map_tree(v, f) for k, v in t.items()}
    return t


def columns(t) -> List[tuple]:
    return [n for n in walk(t) if n[0] == "col"]


def strip_alias(t, alias: str):
    return map_tree(t, lambda n: ("col", None, n[2]) if n[0] == "col" and n[1] == alias else n)


def functions(t) -> List[str]:
    out = []
    for n in walk(t):
        if n[0] == "call":
            out.append(n[1])
        elif n[0] in ("cast", "extract", "substring", "position", "trimspec", "like", "exists", "case"):
            out.append(n[0].upper())
    return out


_BINPREC = {"||": 7, "*": 6, "/": 6, "%": 6, "+": 5, "-": 5}


def unparse(t) -> str:
    """Canonical, fully parenthesised text of a tree (parse(unparse(t)) == t in both dialect modes)."""
    k = t[0]
    if k == "int":
        return str(t[1]) if t[1] >= 0 else f"(-{-t[1]})"
    if k == "float":
        return t[1] if not t[1].startswith("-") else f"({t[1]})"
    if k == "str":
        return "'" + t[1].replace("'", "''") + "'"
    if k == "null":
        return "NULL"
    if k == "bool":
        return "TRUE" if t[1] else "FALSE"
    if k == "param":
        v = t[-1]
        if v is None:
            return "NULL"
        if isinstance(v, bool):
            return "TRUE" if v else "FALSE"
        if isinstance(v, (int, float)):
            return unparse(("int", v)) if isinstance(v, int) else repr(v)
        return "'" + str(v).replace("'", "''") + "'"
    if k == "typed":
        return f"{t[1]} '{t[2]}'"
    if k == "interval":
        return f"INTERVAL '{t[1]}' {t[2]}"
    if k == "kw":
        return t[1]
    if k == "col":
        q = lambda s: '"' + s.replace('"', '""') + '"'
        return (".".join(q(x) for x in t[1].split(".")) + "." if t[1] else "") + q(t[2])
    if k == "neg":
        return f"(-{unparse(t[1])})"
    if k == "not":
        return f"(NOT {unparse(t[1])})"
    if k in ("bin", "cmp"):
        return f"({unparse(t[2])} {t[1]} {unparse(t[3])})"
    if k in ("and", "or"):
        return f"({unparse(t[1])} {k.upper()} {unparse(t[2])})"
    if k == "isnull":
        return f"({unparse(t[2])} IS {'NOT ' if t[1] else ''}NULL)"
    if k == "is":
        return f"({unparse(t[2])} IS {'NOT ' if t[1] else ''}{unparse(t[3])})"
    if k == "in":
        return f"({unparse(t[2])} {'NOT ' if t[1] else ''}IN ({', '.join(unparse(x) for x in t[3])}))"
    if k == "like":
        esc = f" ESCAPE {unparse(t[4])}" if t[4] is not None else ""
        return f"({unparse(t[2])} {'NOT ' if t[1] else ''}LIKE {unparse(t[3])}{esc})"
    if k == "between":
        return f"({unparse(t[2])} {'NOT ' if t[1] else ''}BETWEEN {unparse(t[3])} AND {unparse(t[4])})"
    if k == "call":
        return f"{t[1]}({', '.join(unparse(x) for x in t[2])})"
    if k == "cast":
        return f"CAST({unparse(t[1])} AS {t[2]})"
    if k == "extract":
        return f"EXTRACT({t[1]} FROM {unparse(t[2])})"
    if k == "substring":
        f = f" FOR {unparse(t[3])}" if t[3] is not None else ""
        return f"SUBSTRING({unparse(t[1])} FROM {unparse(t[2])}{f})"
    if k == "position":
        return f"POSITION({unparse(t[1])} IN {unparse(t[2])})"
    if k == "trimspec":
        c = unparse(t[2]) + " " if t[2] is not None else ""
        return f"TRIM({t[1]} {c}FROM {unparse(t[3])})"
    if k == "case":
        s = "CASE" + (f" {unparse(t[1])}" if t[1] is not None else "")
        for w, th in t[2]:
            s += f" WHEN {unparse(w)} THEN {unparse(th)}"
        if t[3] is not None:
            s += f" ELSE {unparse(t[3])}"
        return s + " END"
    if k == "row":
        return "(" + ", ".join(unparse(x) for x in t[1]) + ")"
    if k == "star":
        return "*"
    if k == "distinct":
        return "DISTINCT " + unparse(t[1])
    if k in ("exists", "subquery"):
        return ("EXISTS " if k == "exists" else "") + "(" + unparse(t[1]) + ")"
    if k == "insub":
        return f"({unparse(t[2])} {'NOT ' if t[1] else ''}IN ({unparse(t[3])}))"
    if k == "select":
        d = t[1]
        q = lambda s: '"' + s.replace('"', '""') + '"'
        s = "SELECT " + ("DISTINCT " if d["distinct"] else "")
        s += ", ".join(unparse(e) + (f" AS {q(a)}" if a else "") for e, a in d["cols"])
        if d["frm"]:
            s += " FROM " + q(d["frm"][1]) + (f" {q(d['frm'][2])}" if d["frm"][2] else "")
        for _, kind, tb, a, on in d["joins"]:
            kw = {"left": "LEFT OUTER JOIN", "inner": "INNER JOIN", "cross": "CROSS JOIN"}[kind]
            s += f" {kw} {q(tb)}" + (f" {q(a)}" if a else "") + (f" ON {unparse(on)}" if on is not None else "")
        if d["where"] is not None:
            s += " WHERE " + unparse(d["where"])
        if d["order"]:
            s += " ORDER BY " + ", ".join(f"{unparse(e)} {dd}" for e, dd in d["order"])
        if d["limit"] is not None:
            s += " LIMIT " + unparse(d["limit"])
            if d["offset"] is not None:
                s += " OFFSET " + unparse(d["offset"])
        return s
    raise ValueError(f"cannot unparse {k}")
