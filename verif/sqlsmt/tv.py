"""Translation-validation driver (interpreted mode): one program = one filter through the REAL pipeline.

check_program(item) is a pure function of a picklable item (runs in a worker process):
  1. text  <- filtergen.to_text(term)            (integer literals: sentinels or concrete values)
  2. SQL   <- live visitor on the live parser's AST of that text (nothing about /repo is cached)
  3. tree  <- independent SQL parser                         (ill-formed => replayed on sqlite3)
  4. z3:   exists row, literals.  SQLite-model(tree)(row) selects  !=  OData-reference(term)(row) keeps
  5. sat => the row is inserted into a real in-memory sqlite3, the re-rendered concrete SQL is executed and compared
     with the concrete reference evaluator.  Only a reproduced disagreement is a violation.
"""
from __future__ import annotations

import sqlite3
import time
import traceback
from typing import Any, Dict, List, Optional, Tuple

import z3

from . import filtergen as G
from . import odata_ref as R
from . import regions
from . import sqlparse_ind as SP
from . import values as V
from .sqlite_model import SqliteModel
from .symdb import SymDB, T_SCALAR

SENT2 = 8101        # second sentinel family for the opacity spot-check


# ---------------------------------------------------------------------- the real pipeline
_LEXER = None


def real_parse(text: str):
    from odata_query.grammar import ODataLexer, ODataParser
    global _LEXER
    if _LEXER is None:
        _LEXER = ODataLexer()
    return ODataParser().parse(_LEXER.tokenize(text))


ACTIVE_MUTANT: Optional[str] = None      # self-test only: name of an in-memory mutant of the visitor (selftest.py)


def real_sql(text: str, dialect: str = "sqlite", alias: Optional[str] = None) -> Tuple[str, Any]:
    """-> (status, payload): ('ok', sql) | ('parser_rejected', msg) | ('refused', msg) | ('crash', msg)"""
    from odata_query import exceptions as ex
    from odata_query import sql as sqlmod
    cls = {"sqlite": sqlmod.AstToSqliteSqlVisitor, "standard": sqlmod.AstToSqlVisitor,
           "athena": sqlmod.AstToAthenaSqlVisitor}[dialect]
    if ACTIVE_MUTANT:
        from .selftest import mutant_class
        cls = mutant_class(ACTIVE_MUTANT, cls)
    try:
        ast = real_parse(text)
    except ex.ODataException as e:
        return "parser_rejected", f"{type(e).__name__}: {e}"
    except Exception as e:                                   # noqa: BLE001 - foreign exception from the parser
        return "parser_crash", f"{type(e).__name__}: {e}"
    try:
        visitor = cls(table_alias=alias) if alias else cls()
        return "ok", visitor.visit(ast)
    except ex.ODataException as e:
        return "refused", f"{type(e).__name__}: {e}"
    except Exception as e:                                   # noqa: BLE001
        return "crash", f"{type(e).__name__}: {e}"


# ---------------------------------------------------------------------- visitor instance reuse (call-history sweep)
_LONG: Dict[Any, Any] = {}          # (dialect, alias) -> one long-lived visitor per worker process
_HISTORY: Dict[Any, List[str]] = {}  # the filters that instance has translated so far, in order


def _visitor_class(dialect: str):
    from odata_query import sql as sqlmod
    return {"sqlite": sqlmod.AstToSqliteSqlVisitor, "standard": sqlmod.AstToSqlVisitor,
            "athena": sqlmod.AstToAthenaSqlVisitor}[dialect]


def _render_with(visitor, text: str) -> Tuple[str, Any]:
    from odata_query import exceptions as ex
    try:
        return "ok", visitor.visit(real_parse(text))          # the AST is not kept: it is garbage after this call
    except ex.ODataException as e:
        return "refused", f"{type(e).__name__}: {e}"
    except Exception as e:                                     # noqa: BLE001
        return "crash", f"{type(e).__name__}: {e}"


def reuse_check(text: str, dialect: str, alias: Optional[str], fresh: Tuple[str, Any]) -> Optional[dict]:
    """A visitor instance that already translated other filters must translate `text` exactly like a fresh one.
    Returns None if it does, else a witness {history, ...}.  This is a call-history sweep on the real code (no solver):
    one long-lived instance per worker and (dialect, alias) sees every program of the run in turn."""
    if ACTIVE_MUTANT:
        return None
    key = (dialect, alias)
    cls = _visitor_class(dialect)
    if key not in _LONG:
        _LONG[key] = cls(table_alias=alias) if alias else cls()
        _HISTORY[key] = []
    hist = _HISTORY[key]
    got = _render_with(_LONG[key], text)
    hist.append(text)
    if fresh[0] in ("parser_rejected", "parser_crash") or got == fresh or (got[0] == fresh[0] != "ok"):
        return None
    again = _render_with(_LONG[key], text)                    # same instance, same call: still different?
    seq = replay_history(hist, dialect, alias)
    return {"filter": text, "dialect": dialect, "alias": alias, "fresh_visitor": list(fresh), "reused_visitor": list(got),
            "reused_visitor_again": list(again), "history": list(hist), "calls_before": len(hist) - 1,
            "sequence_replay_on_new_instance": seq, "defect_class": "visitor-instance-reuse"}


def replay_history(history: List[str], dialect: str, alias: Optional[str]) -> dict:
    """Re-run the whole call sequence on a brand-new instance and compare its last answer with a fresh visitor's."""
    cls = _visitor_class(dialect)
    v = cls(table_alias=alias) if alias else cls()
    last = None
    for t in history:
        last = _render_with(v, t)
    f = cls(table_alias=alias) if alias else cls()
    fresh = _render_with(f, history[-1])
    return {"reproduced": last != fresh and not (last[0] == fresh[0] != "ok"), "last": list(last), "fresh": list(fresh)}


# ---------------------------------------------------------------------- real sqlite3
def sqlite_select(db: SymDB, content: Dict[str, List[dict]], where_sql: str, table: str = "t") -> Tuple[str, Any]:
    """-> ('rows', [ids]) | ('error', message)"""
    conn = sqlite3.connect(":memory:")
    try:
        db.create(conn)
        db.load(conn, content)
        pk = db.specs[table].pk.name
        try:
            rows = conn.execute(f'SELECT "{pk}" FROM "{table}" WHERE {where_sql}').fetchall()
        except (sqlite3.Error, sqlite3.Warning) as e:
            return "error", f"{type(e).__name__}: {e}"
        return "rows", sorted(r[0] for r in rows)
    finally:
        conn.close()


BOUNDARY_ROWS = [
    {"id": 1, "a": 1, "b": 2, "s": "a", "u": "b", "f": True},
    {"id": 1, "a": 0, "b": -1, "s": "", "u": "a", "f": False},
    {"id": 1, "a": None, "b": 3, "s": None, "u": "%", "f": None},
    {"id": 1, "a": -2, "b": 2, "s": "aA", "u": "a", "f": True},
    {"id": 1, "a": 3, "b": 0, "s": "a%b", "u": "_", "f": False},
    {"id": 1, "a": 2, "b": 2, "s": "'", "u": "'", "f": True},
]


NEUTRAL_ROW = {"id": 1, "a": 0, "b": 0, "s": "", "u": "", "f": False}


# ---------------------------------------------------------------------- one program
def foreign_chars(sql: str, filter_literals: str = "") -> str:
    """Printable characters inside the string literals of an emitted text that are neither in the base alphabet nor
    came from the filter's own literals: the translator brought them into play (e.g. ESCAPE '!')."""
    out = []
    try:
        toks = SP.tokenize(sql)
    except SP.SqlIllFormed:
        return ""
    for kind, val, _ in toks:
        if kind == "str":
            for ch in val:
                if ch not in V.BASE_ALPH and ch not in filter_literals and ch not in out and ch.isascii() and ch.isprintable() \
                        and not ch.isalnum():
                    out.append(ch)
    return "".join(out)


def discover_extra_alphabet(dialects=("sqlite",)) -> str:
    """Probe the live visitors with the metacharacter literals and collect the characters they introduce."""
    found = ""
    for d in dialects:
        for fn in ("contains", "startswith", "endswith"):
            for lit in ("%", "_", "a%", "\\", "'", "a"):
                text = f"{fn}(s,'" + lit.replace("'", "''") + "')"
                st, sql = real_sql(text, d)
                if st == "ok" and isinstance(sql, str):
                    for ch in foreign_chars(sql, lit):
                        if ch not in found:
                            found += ch
    return found[:3]


def check_program(item: dict) -> dict:
    global ACTIVE_MUTANT
    t0 = time.time()
    out: Dict[str, Any] = {"name": item["name"], "family": item.get("family", ""), "status": None, "solver_s": 0.0}
    ACTIVE_MUTANT = item.get("mutant")
    if ACTIVE_MUTANT:
        out["mutant"] = ACTIVE_MUTANT
    try:
        V.set_alphabet(item.get("extra_alphabet", ""))
        _check(item, out)
    except V.Unmodelled as e:
        out["status"] = "outside"
        out["why"] = str(e)
    except Exception as e:                                   # noqa: BLE001 - harness bug: never a pass
        out["status"] = "harness_error"
        out["why"] = f"{type(e).__name__}: {e}\n{traceback.format_exc(limit=6)}"
    finally:
        ACTIVE_MUTANT = None
        V.set_alphabet("")
    out["wall_s"] = round(time.time() - t0, 3)
    return out


def _instantiate(item: dict):
    term0 = item["term"]
    if item.get("mode", "abstract") == "abstract" and G.int_slots(term0):
        term, sent = G.with_sentinels(term0)
        return term, sent
    vals = item.get("values") or [1, 2, 3, 0, -1, 2, 1, 3]
    n = G.int_slots(term0)
    vals = (list(vals) * (n // max(len(vals), 1) + 1))[:n]
    return G.with_values(term0, vals), []


def _opaque(term, sent: List[int], tree, full: bool, dialect: str) -> bool:
    """Spot-check that the visitor copies integer literals opaquely: render again with other sentinels."""
    if not sent:
        return True
    shifted = G.replace_ints(term, {s: SENT2 + i for i, s in enumerate(sent)})
    st, sql2 = real_sql(G.to_text(shifted, full), dialect)
    if st != "ok":
        return False
    try:
        tree2 = SP.parse_expr(sql2, "sqlite")
    except (SP.SqlIllFormed, SP.SqlUnsupported):
        return False
    back = {SENT2 + i: s for i, s in enumerate(sent)}
    back.update({-(SENT2 + i): -s for i, s in enumerate(sent)})
    tree2 = SP.map_tree(tree2, lambda n: ("int", back[n[1]]) if n[0] == "int" and n[1] in back else n)
    return tree2 == tree


def _check(item: dict, out: dict) -> None:
    full = bool(item.get("full"))
    timeout_ms = int(item.get("timeout_ms", 10000))
    active: List[str] = list(item.get("regions", []))
    term, sent = _instantiate(item)
    text = G.to_text(term, full)
    out["filter"] = text
    out["features"] = G.features(term)
    status, sql = real_sql(text, "sqlite")
    if not item.get("_no_reuse"):
        out["reuse"] = reuse_check(text, "sqlite", None, (status, sql))
    if status != "ok":
        out["status"] = status
        out["why"] = sql
        return
    out["sql"] = sql
    ctx = {"term": term, "features": out["features"], "dialect": "sqlite", "sql": sql}
    hit = regions.static_hit(active, ctx)
    if hit:
        out["status"] = "known"
        out["known_id"] = hit
        return
    # ---- independent parse
    try:
        tree = SP.parse_expr(sql, "sqlite")
    except SP.SqlIllFormed as e:
        _replay_illformed(item, term, sent, text, sql, e, out)
        return
    except SP.SqlUnsupported as e:
        out["status"] = "outside"
        out["why"] = f"SQL outside the parser's subset: {e}"
        return
    if sent and not _opaque(term, sent, tree, full, "sqlite"):
        # literals are not copied opaquely: fall back to concrete literals for this program
        item2 = dict(item, mode="concrete", _no_reuse=True)
        out["note"] = "integer literals not rendered opaquely; checked with concrete literals"
        _check(item2, out)
        return
    # ---- symbolic row, both semantics
    db = SymDB.single_row(T_SCALAR)
    slot = db.slot("t")
    consts: Dict[int, V.IntV] = {}
    ccons: List[Any] = []
    for s in sent:
        v, cons = V.ivar(f"lit{s}", nullable=False)
        consts[s] = v
        ccons += cons
    track = any(r in regions.NEEDS_LIKE_TRACKING for r in active)
    model = SqliteModel(db, scope=[{"t": slot}], consts=consts, track_like=track)
    ref = R.OdataRef(slot.cells, consts)
    sql_keep = model.where(tree)
    ref_keep = ref.keeps(term)
    out["sql_ops"] = model.used
    def make_solver():
        sv = z3.Solver()
        sv.set("timeout", timeout_ms)
        sv.add(db.cons + ccons + model.side + ref.side)
        return sv
    # OData-level view of the same region: the *value* of a non-literal pattern argument (field, call, concat of a
    # literal wildcard with a field, ...) - in the SQL text a user-written '%' inside concat() cannot be told apart
    # from the wildcard the visitor adds, so the region is stated on the filter, not on the emitted text
    nonlit = []
    if "like-field-pattern-wildcards" in active:
        for sub in G.subterms(term):
            if sub[0] == "call" and sub[1] in ("contains", "startswith", "endswith") and len(sub[2]) == 2 \
                    and sub[2][1][0] != "str":
                try:
                    v = ref.ev(sub[2][1])
                except Exception:
                    continue
                if getattr(v, "kind", None) == "str":
                    nonlit.append(v)
    round_args = []
    if "sqlite-round-trunc-negative" in active:
        for sub in G.subterms(term):
            if sub[0] == "call" and sub[1] == "round":
                try:
                    round_args.append(V.to_real(ref.ev(sub[2][0])))
                except Exception:
                    continue
    rmap = regions.dynamic_map(active, {"likes": model.likes, "nonliteral_patterns": nonlit, "round_args": round_args})
    dec = regions.solve_with_regions(make_solver, sql_keep != ref_keep, rmap)
    out["solver_s"] = dec["solver_s"]
    if dec["status"] == "unknown":
        out["status"] = "inconclusive"
        out["why"] = dec["why"]
        return
    if dec["status"] == "vacuous":
        out["status"] = "outside"
        out["why"] = "vacuous: the assumptions (divisor != 0, substring range, no overflow) exclude every row"
        return
    if dec["status"] == "known":
        out["status"] = "known"
        out["known_id"] = dec["known_id"]
        return
    if dec["status"] == "unsat":
        out["status"] = "discharged"
        return
    solver = dec["solver"]
    # ---- sat: prefer a small witness (greedy: each preference is kept only if the query stays sat)
    m = solver.model()
    for pref in _preferences(db, consts, term):
        solver.push()
        solver.add(pref)
        if solver.check() == z3.sat:
            m = solver.model()
        else:
            solver.pop()
    # ---- replay on the real code and the real sqlite3
    content = db.decode(m)
    row = content["t"][0]
    used_cols = {x[1] for x in G.subterms(term) if x[0] == "field"}
    for col, dflt in NEUTRAL_ROW.items():          # columns the filter never mentions cannot matter
        if col not in used_cols:
            row[col] = dflt
    lit_vals = {s: V.decode(m, consts[s]) for s in sent}
    cterm = G.replace_ints(term, lit_vals)
    ctext = G.to_text(cterm, full)
    pred_sql = bool(z3.is_true(m.eval(sql_keep, True)))
    pred_ref = bool(z3.is_true(m.eval(ref_keep, True)))
    witness = {"filter": ctext, "term": cterm, "row": row, "abstract_filter": text if sent else None,
               "literals": {str(k): v for k, v in lit_vals.items()} or None,
               "model_says": {"sqlite_selects": pred_sql, "odata_keeps": pred_ref}}
    st2, csql = real_sql(ctext, "sqlite")
    if st2 != "ok":
        out["status"] = "harness_error"
        out["why"] = f"concrete re-rendering of the witness failed: {st2} {csql}"
        out["witness"] = witness
        return
    witness["sql"] = csql
    _replay(db, cterm, csql, content, witness, out, pred_sql, pred_ref)


def _preferences(db: SymDB, consts, term) -> List[Any]:
    """Soft preferences for readable witnesses: short strings, small numbers (never affects the verdict)."""
    used = {x[1] for x in G.subterms(term) if x[0] == "field"}
    prefs: List[Any] = []
    cells = db.slot("t").cells
    strs = [cells[c] for c in ("s", "u") if c in used]
    ints = [cells[c] for c in ("a", "b") if c in used] + list(consts.values())
    for n in (1, 2):
        for v in strs:
            prefs.append(z3.Or(v.null, z3.ULE(v.len, n)))
    for lo, hi in ((0, 2), (-2, 3)):
        for v in ints:
            prefs.append(z3.Or(v.null, z3.And(v.val >= lo, v.val <= hi)))
    return prefs


def _replay(db: SymDB, cterm, csql: str, content, witness: dict, out: dict, pred_sql=None, pred_ref=None) -> None:
    row = content["t"][0]
    try:
        ref_keep = R.keeps_concrete(cterm, row)
    except R.Undefined as e:
        out["status"] = "harness_error"
        out["why"] = f"witness lies in an assumed-away region of the reference: {e}"
        out["witness"] = witness
        return
    kind, got = sqlite_select(db, content, csql)
    witness["odata_keeps_row"] = ref_keep
    if kind == "error":
        witness["sqlite_result"] = got
        out["status"] = "violation"
        out["what"] = f"sqlite3 cannot execute the emitted WHERE clause ({got}); OData keeps the row: {ref_keep}"
        out["witness"] = witness
        return
    selected = bool(got)
    witness["sqlite_selects_row"] = selected
    if selected != ref_keep:
        if pred_sql is not None and (pred_sql != selected or pred_ref != ref_keep):
            out["status"] = "harness_error"
            out["why"] = (f"real results differ but not as the model predicted (model: sqlite {pred_sql}, odata "
                          f"{pred_ref}; real: sqlite {selected}, odata {ref_keep})")
            out["witness"] = witness
            return
        out["status"] = "violation"
        out["what"] = (f"real sqlite3 {'selects' if selected else 'does not select'} the row, OData semantics "
                       f"{'keeps' if ref_keep else 'drops'} it")
        out["witness"] = witness
        return
    out["status"] = "harness_error"
    out["why"] = (f"solver model does not reproduce: real sqlite3 selects={selected}, reference keeps={ref_keep} "
                  f"(model predicted sqlite={pred_sql}, odata={pred_ref})")
    out["witness"] = witness


def _replay_illformed(item, term, sent, text, sql, err: SP.SqlIllFormed, out: dict) -> None:
    """The independent parser rejects the emitted text: show on real sqlite3 that the clause is not usable."""
    cterm = G.replace_ints(term, {s: (i % 3) + 1 for i, s in enumerate(sent)})
    ctext = G.to_text(cterm, bool(item.get("full")))
    st, csql = real_sql(ctext, "sqlite")
    if st != "ok":
        out["status"] = "harness_error"
        out["why"] = f"concrete re-rendering failed: {st} {csql}"
        return
    db = SymDB.single_row(T_SCALAR)
    base = {"filter": ctext, "term": cterm, "sql": csql, "parse_error": f"{err.kind}: {err}"}
    out["illformed_kind"] = err.kind
    differing = None
    for row in BOUNDARY_ROWS:
        content = {"t": [row]}
        kind, got = sqlite_select(db, content, csql)
        if kind == "error":
            out["status"] = "violation"
            out["what"] = f"emitted WHERE clause is not SQL ({err.kind}: {err}); sqlite3: {got}"
            out["witness"] = dict(base, row=row, sqlite_result=got)
            return
        try:
            ref_keep = R.keeps_concrete(cterm, row)
        except R.Undefined:
            continue
        if bool(got) != ref_keep and differing is None:
            differing = dict(base, row=row, sqlite_selects_row=bool(got), odata_keeps_row=ref_keep)
    if differing is not None:
        out["status"] = "violation"
        out["what"] = (f"emitted WHERE clause is ill-formed for the independent parser ({err.kind}) and selects "
                       "wrongly on real sqlite3")
        out["witness"] = differing
        return
    if err.kind == "bare-word":
        # SQLite simplifies `0 AND <expr>` / `<expr> AND 0` at parse time, before names are resolved, so a clause with
        # an unresolvable bare word (e.g. the text None) can still execute - and then selects the right rows.  Not
        # decidable by the model and not a demonstrable C01 failure; C09 reports the placeholder text itself.
        out["status"] = "outside"
        out["why"] = ("ill-formed (bare word) but sqlite3 executes it via constant folding and agrees with the "
                      "reference on the boundary rows")
        return
    out["status"] = "harness_error"
    out["why"] = (f"independent parser rejects text that sqlite3 executes and that agrees with the reference on the "
                  f"boundary rows: {err.kind}: {err}: {csql!r}")


# ---------------------------------------------------------------------- known-finding witness replay
def term_from_text(text: str):
    """Generator-style term of a scalar filter TEXT (only for witnesses recorded as text: the live parser's AST is decoded
    node by node; the checks themselves never take their reference from the parser)."""
    from odata_query import ast

    def go(n):
        if isinstance(n, ast.Identifier):
            return ("field", n.name)
        if isinstance(n, ast.Integer):
            return ("int", int(n.val))
        if isinstance(n, ast.Float):
            return ("float", n.val)
        if isinstance(n, ast.String):
            return ("str", n.val)
        if isinstance(n, ast.Boolean):
            return ("bool", n.val.lower() == "true")
        if isinstance(n, ast.Null):
            return ("null",)
        if isinstance(n, ast.BinOp):
            op = {ast.Add: "add", ast.Sub: "sub", ast.Mult: "mul", ast.Div: "div", ast.Mod: "mod"}[type(n.op)]
            return ("arith", op, go(n.left), go(n.right))
        if isinstance(n, ast.UnaryOp):
            return ("neg" if isinstance(n.op, ast.USub) else "not", go(n.operand))
        if isinstance(n, ast.BoolOp):
            return ("and" if isinstance(n.op, ast.And) else "or", go(n.left), go(n.right))
        if isinstance(n, ast.Compare):
            if isinstance(n.comparator, ast.In):
                return ("in", go(n.left), [go(i) for i in n.right.val])
            op = {ast.Eq: "eq", ast.NotEq: "ne", ast.Lt: "lt", ast.LtE: "le", ast.Gt: "gt", ast.GtE: "ge"}[type(n.comparator)]
            return ("cmp", op, go(n.left), go(n.right))
        if isinstance(n, ast.Call):
            return ("call", n.func.name, [go(a) for a in n.args])
        raise ValueError(f"cannot decode {type(n).__name__}")
    return go(real_parse(text))


def replay_known_witness(w: dict) -> Tuple[bool, str]:
    """Does the recorded witness {term | filter, row} still fail on the live code?  -> (still_fails, description)"""
    term = _retuple(w["term"]) if w.get("term") else term_from_text(w["filter"])
    row = dict(NEUTRAL_ROW, **w["row"])
    text = G.to_text(term)
    st, sql = real_sql(text, "sqlite")
    if st != "ok":
        return False, f"filter {text!r} is now {st}"
    db = SymDB.single_row(T_SCALAR)
    try:
        ref_keep = R.keeps_concrete(term, row)
    except R.Undefined as e:
        return False, f"witness outside the reference's domain: {e}"
    kind, got = sqlite_select(db, {"t": [row]}, sql)
    if kind == "error":
        return True, f"{text!r} -> {sql!r}: sqlite3 {got}"
    if bool(got) != ref_keep:
        return True, (f"{text!r} -> {sql!r} on row {row}: sqlite3 selects={bool(got)}, OData keeps={ref_keep}")
    return False, f"{text!r} -> {sql!r} now agrees on the recorded row"


def _retuple(x):
    """JSON lists back to term tuples (argument / item lists stay lists)."""
    if isinstance(x, list):
        if x and isinstance(x[0], str) and x[0] in ("field", "int", "str", "bool", "null", "arith", "neg", "cmp", "in",
                                                    "and", "or", "not", "call", "float", "date", "dt", "dur", "guid", "list"):
            k = x[0]
            if k == "in":
                return ("in", _retuple(x[1]), [_retuple(i) for i in x[2]])
            if k == "call":
                return ("call", x[1], [_retuple(i) for i in x[2]])
            return tuple([k] + [_retuple(i) if isinstance(i, list) else i for i in x[1:]])
        return [_retuple(i) for i in x]
    return x
