"""C15 registry clause: importing odata_query.sqlalchemy must not change what the host's `sqlalchemy.func.<name>(col)`
produces.  A finite CONFIGURATION SWEEP (not a solver verdict): for every name registered in SQLAlchemy's function
registry, the repo's function class names, case variants and two unregistered names, the class, the compiled text and
the type of `func.<name>(column('x'))` are computed in fresh subprocesses:
  baseline      a process that never imports odata_query
  import_first  import odata_query.sqlalchemy, then use func
  use_first     use func for every name, then import odata_query.sqlalchemy, then use func again
This module must not import odata_query at module level (the baseline child imports it)."""
from __future__ import annotations

import json
import os
import subprocess
import sys
from typing import Dict, List


def _probe(names: List[str]) -> Dict[str, list]:
    import sqlalchemy as sa
    from sqlalchemy.dialects import sqlite
    out = {}
    for n in names:
        try:
            f = getattr(sa.func, n)(sa.column("x"))
            out[n] = [type(f).__module__ + "." + type(f).__qualname__, str(f.compile(dialect=sqlite.dialect())), repr(f.type)]
        except Exception as e:                                     # noqa: BLE001
            out[n] = ["EXC", type(e).__name__, ""]
    from sqlalchemy.sql import functions
    reg = getattr(functions, "_registry", {})
    out["__default_registry_keys__"] = [sorted(reg.get("_default", {}).keys()) if hasattr(reg, "get") else [], "", ""]
    return out


def child_main(mode: str) -> None:
    names = json.loads(sys.stdin.read())
    if mode == "baseline":
        res = _probe(names)
        assert "odata_query" not in sys.modules
    elif mode == "import_first":
        import odata_query.sqlalchemy  # noqa: F401
        res = _probe(names)
    elif mode == "use_first":
        _probe(names)
        import odata_query.sqlalchemy  # noqa: F401
        res = _probe(names)
    else:
        raise SystemExit(2)
    sys.stdout.write(json.dumps(res))


def registered_names() -> List[str]:
    """Names to sweep, computed in a child that does not import odata_query (plus the repo's class names, read from
    the source file's AST so that this process does not need to import it either)."""
    import ast as pyast
    from pathlib import Path
    from ..common import REPO
    code = "import json, sqlalchemy; from sqlalchemy.sql import functions as f; print(json.dumps(sorted(f._registry['_default'].keys())))"
    out = subprocess.run([sys.executable, "-c", code], capture_output=True, text=True, timeout=120)
    names = set(json.loads(out.stdout)) if out.returncode == 0 else set()
    repo_names = set()
    src = Path(REPO, "odata_query", "sqlalchemy", "functions_ext.py")
    try:
        for node in pyast.walk(pyast.parse(src.read_text())):
            if isinstance(node, pyast.ClassDef):
                repo_names.add(node.name)
    except OSError:
        pass
    allnames = set(names) | repo_names
    for n in list(repo_names) + ["lower", "upper", "count", "coalesce", "now", "concat", "char_length"]:
        allnames |= {n.upper(), n.title()}
    allnames |= {"vt_unregistered_fn", "odata_nosuch"}
    return sorted(allnames), sorted(repo_names)


def sweep() -> Dict[str, object]:
    names, repo_names = registered_names()
    env = dict(os.environ)
    res = {}
    for mode in ("baseline", "import_first", "use_first"):
        p = subprocess.run([sys.executable, "-c", f"from verif.sqlsmt.registry_sweep import child_main; child_main({mode!r})"],
                           input=json.dumps(names), capture_output=True, text=True, timeout=300, env=env)
        if p.returncode != 0:
            res[mode] = {"error": p.stderr[-600:]}
        else:
            res[mode] = json.loads(p.stdout)
    return {"names": names, "repo_names": repo_names, "results": res}
