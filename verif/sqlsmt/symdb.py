"""Symbolic rows and bounded symbolic databases.

A database is a list of TableSpec; each table has a fixed number of row *slots*; each slot has a symbolic `present`
flag and one symbolic nullable cell per column.  Primary keys are symbolic, non-null, in [1, 8] and pairwise distinct
among the slots of a table; foreign keys are nullable and, when non-null, equal the key of a *present* slot of the
target table (referential integrity is assumed).  C01 uses one table `t` with one always-present slot (a scalar
filter is row-local, so one arbitrary row stands for every table content); the relational properties instantiate
several tables with several slots from the same classes.

Decoding a z3 model gives plain Python rows; `create`/`load` put them into a real sqlite3 connection for replay.
"""
from __future__ import annotations

from dataclasses import dataclass, field
from typing import Any, Dict, List, Optional, Sequence

import z3

from . import values as V


@dataclass
class Col:
    name: str
    kind: str                  # 'int' | 'str' | 'bool'
    nullable: bool = True
    pk: bool = False
    fk: Optional[str] = None   # name of the referenced table (references its primary key)

    @property
    def sqltype(self) -> str:
        return {"int": "INTEGER", "str": "TEXT", "bool": "BOOLEAN"}[self.kind]


@dataclass
class TableSpec:
    name: str
    cols: List[Col]
    slots: int = 1

    def col(self, name: str) -> Optional[Col]:
        for c in self.cols:
            if c.name == name:
                return c
        return None

    @property
    def pk(self) -> Optional[Col]:
        for c in self.cols:
            if c.pk:
                return c
        return None

    def ddl(self) -> str:
        parts = []
        for c in self.cols:
            parts.append(f'"{c.name}" {c.sqltype}' + (" PRIMARY KEY" if c.pk else ""))
        return f'CREATE TABLE "{self.name}" (' + ", ".join(parts) + ")"


# the C01 table
T_SCALAR = TableSpec("t", [Col("id", "int", nullable=False, pk=True), Col("a", "int"), Col("b", "int"),
                           Col("s", "str"), Col("u", "str"), Col("f", "bool")], slots=1)


class Slot:
    """One row slot: `present` flag and cells {column -> Value}."""

    def __init__(self, spec: TableSpec, index: int, present, cells: Dict[str, Any]):
        self.spec = spec
        self.index = index
        self.present = present
        self.cells = cells

    @classmethod
    def null_row(cls, spec: TableSpec) -> "Slot":
        """The all-NULL row a LEFT OUTER JOIN supplies when nothing matches."""
        return cls(spec, -1, V.TRUE, {c.name: V.null_of(c.kind) for c in spec.cols})


class SymDB:
    def __init__(self, specs: Sequence[TableSpec], prefix: str = "", all_present: bool = False, str_cap: int = V.CELL_CAP):
        self.specs = {s.name: s for s in specs}
        self.tables: Dict[str, List[Slot]] = {}
        self.cons: List[Any] = []
        for spec in specs:
            slots = []
            for i in range(spec.slots):
                base = f"{prefix}{spec.name}{i}"
                present = V.TRUE if all_present else z3.Bool(base + "!present")
                cells = {}
                for c in spec.cols:
                    nm = f"{base}.{c.name}"
                    if c.kind == "int":
                        v, cons = V.ivar(nm, c.nullable)
                        if c.pk:
                            cons = [v.val >= 1, v.val <= V.INT_HI]
                    elif c.kind == "bool":
                        v, cons = V.bvar(nm, c.nullable)
                    else:
                        v, cons = V.svar(nm, str_cap, c.nullable)
                    cells[c.name] = v
                    self.cons += cons
                slots.append(Slot(spec, i, present, cells))
            self.tables[spec.name] = slots
            pk = spec.pk
            if pk is not None and len(slots) > 1:
                self.cons.append(z3.Distinct([s.cells[pk.name].val for s in slots]))
        # referential integrity
        for spec in specs:
            for c in spec.cols:
                if c.fk is None:
                    continue
                target = self.specs[c.fk]
                tpk = target.pk
                for s in self.tables[spec.name]:
                    cell = s.cells[c.name]
                    refs = [z3.And(ts.present, cell.val == ts.cells[tpk.name].val) for ts in self.tables[c.fk]]
                    self.cons.append(z3.Or(z3.Not(s.present), cell.null, z3.Or(refs) if refs else V.FALSE))

    @classmethod
    def single_row(cls, spec: TableSpec = T_SCALAR) -> "SymDB":
        return cls([spec], all_present=True)

    # ------------------------------------------------------------------ access
    def slot(self, table: str, index: int = 0) -> Slot:
        return self.tables[table][index]

    def cells(self) -> List[Any]:
        return [v for slots in self.tables.values() for s in slots for v in s.cells.values()]

    def str_cells(self) -> List[V.StrV]:
        return [v for v in self.cells() if v.kind == "str"]

    # ------------------------------------------------------------------ model <-> concrete
    def decode(self, model) -> Dict[str, List[Dict[str, Any]]]:
        out: Dict[str, List[Dict[str, Any]]] = {}
        for name, slots in self.tables.items():
            rows = []
            for s in slots:
                if z3.is_true(model.eval(s.present, True)):
                    rows.append({c: V.decode(model, v) for c, v in s.cells.items()})
            out[name] = rows
        return out

    def fix(self, content: Dict[str, List[Dict[str, Any]]]) -> List[Any]:
        """Constraints pinning the database to a concrete content (rows fill the first slots)."""
        cons: List[Any] = []
        for name, slots in self.tables.items():
            rows = content.get(name, [])
            if len(rows) > len(slots):
                raise ValueError("more rows than slots")
            for i, s in enumerate(slots):
                if i < len(rows):
                    if not z3.is_true(s.present):
                        cons.append(s.present)
                    for c, v in s.cells.items():
                        cons += V.fix_value(v, rows[i].get(c))
                elif not z3.is_true(s.present):
                    cons.append(z3.Not(s.present))
        return cons

    # ------------------------------------------------------------------ real sqlite3
    def create(self, conn) -> None:
        for spec in self.specs.values():
            conn.execute(spec.ddl())

    def load(self, conn, content: Dict[str, List[Dict[str, Any]]]) -> None:
        for name, rows in content.items():
            spec = self.specs[name]
            cols = [c.name for c in spec.cols]
            for r in rows:
                vals = [(int(r[c]) if isinstance(r.get(c), bool) else r.get(c)) for c in cols]
                conn.execute(f'INSERT INTO "{name}" (' + ", ".join(f'"{c}"' for c in cols) + ") VALUES (" +
                             ", ".join("?" for _ in cols) + ")", vals)
