"""Reference printer: decoded AST tuples -> OData filter text.

Knows only OData 4.01 URL conventions section 5.1.1.14 (operator precedence, left associativity) and
the ABNF spelling of literals.  Independent of odata_query.roundtrip.  Two renderings:
minimal (parentheses only where the precedence table requires them) and full (every compound
sub-expression parenthesised).
"""
from __future__ import annotations

from typing import Any

# precedence, low -> high (5.1.1.14): or < and < eq ne < lt le gt ge < add sub < mul div mod < unary (- not) < in
PREC = {"Or": 1, "And": 2, "Eq": 3, "NotEq": 3, "Lt": 4, "LtE": 4, "Gt": 4, "GtE": 4, "Add": 5, "Sub": 5,
        "Mult": 6, "Div": 6, "Mod": 6, "Not": 7, "USub": 7, "In": 8}
KW = {"Or": "or", "And": "and", "Eq": "eq", "NotEq": "ne", "Lt": "lt", "LtE": "le", "Gt": "gt", "GtE": "ge",
      "Add": "add", "Sub": "sub", "Mult": "mul", "Div": "div", "Mod": "mod", "In": "in"}
ATOM = 100


def prec(d: Any) -> int:
    if d[0] in ("BinOp", "BoolOp", "Compare", "UnaryOp"):
        return PREC[d[1]]
    return ATOM


def render(d: Any, full: bool = False, top: bool = True) -> str:
    k = d[0]
    if k == "Identifier":
        ns = d[2][1:]
        return ".".join(tuple(ns) + (d[1],))
    if k == "Attribute":
        return render(d[1], full, False) + "/" + d[2]
    if k == "Null":
        return "null"
    if k == "String":
        return "'" + d[1].replace("'", "''") + "'"
    if k == "Duration":
        return "duration'" + d[1] + "'"
    if k == "Geography":
        return "geography'" + d[1] + "'"
    if k in ("Integer", "Float", "Boolean", "Date", "Time", "DateTime", "GUID"):
        return d[1]
    if k == "List":
        items = d[1][1:]
        if len(items) == 1:
            return "(" + render(items[0], full, True) + ",)"
        return "(" + ", ".join(render(x, full, True) for x in items) + ")"
    if k == "Call":
        return render(d[1], full, False) + "(" + ", ".join(render(a, full, True) for a in d[2][1:]) + ")"
    if k == "NamedParam":
        return render(d[1], full, False) + "=" + render(d[2], full, True)
    if k == "Lambda":
        return render(d[1], full, False) + ": " + render(d[2], full, True)
    if k == "CollectionLambda":
        return render(d[1], full, False) + "/" + d[2].lower() + "(" + (render(d[3], full, True) if d[3] is not None else "") + ")"
    if k in ("BinOp", "BoolOp", "Compare"):
        p = PREC[d[1]]
        l, r = d[2], d[3]
        ls, rs = render(l, full, False), render(r, full, False)
        if not full:
            if prec(l) < p:
                ls = "(" + ls + ")"
            if d[1] != "In" and prec(r) <= p:
                rs = "(" + rs + ")"
        s = ls + " " + KW[d[1]] + " " + rs
        return "(" + s + ")" if (full and not top) else s
    if k == "UnaryOp":
        o = d[2]
        os_ = render(o, full, False)
        if not full and prec(o) < PREC[d[1]]:
            os_ = "(" + os_ + ")"
        s = ("not " if d[1] == "Not" else "- ") + os_
        return "(" + s + ")" if (full and not top) else s
    raise ValueError(f"cannot render {d!r}")
