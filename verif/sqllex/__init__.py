"""Independent, minimal SQL scanner (standard SQL lexical rules) usable under CrossHair.

Token kinds: 'str' (single-quoted, '' doubles), 'qid' (double-quoted identifier, "" doubles), 'word', 'num',
'op', 'comment' (-- to end of line, /* ... */), 'semi', 'bad' (unterminated literal / identifier / comment).
Whitespace separates tokens and is dropped.  Backslash has no special meaning (standard SQL).
Only index-based access and forward slices are used (CrossHair 0.0.110 mis-models negative-index
slices of concatenated strings).
"""
from __future__ import annotations

from typing import List, Tuple

# character classes as range tests (few comparisons per character: the scanner also runs under CrossHair)
def _is_ws(c: str) -> bool:
    return c == " " or c == "\n" or c == "\t" or c == "\r"


def _is_digit(c: str) -> bool:
    return "0" <= c <= "9"


def _is_word_start(c: str) -> bool:
    return ("a" <= c <= "z") or ("A" <= c <= "Z") or c == "_"


def _is_word(c: str) -> bool:
    return _is_word_start(c) or _is_digit(c)


def scan_one(text: str, i: int):
    """scan one token starting at offset i (skipping leading blanks): ((kind, text), start, end) or (None, n, n)."""
    n = len(text)
    while i < n and _is_ws(text[i]):
        i += 1
    if i >= n:
        return None, n, n
    c = text[i]
    if c == "'" or c == '"':
        q = c
        j = i + 1
        body = []
        closed = False
        while j < n:
            d = text[j]
            if d == q:
                if j + 1 < n and text[j + 1] == q:
                    body.append(q)
                    j += 2
                    continue
                closed = True
                j += 1
                break
            body.append(d)
            j += 1
        return ((("str" if q == "'" else "qid") if closed else "bad", "".join(body)), i, j)
    if c == "-" and i + 1 < n and text[i + 1] == "-":
        j = i + 2
        while j < n and text[j] != "\n":
            j += 1
        return (("comment", text[i:j]), i, j)
    if c == "/" and i + 1 < n and text[i + 1] == "*":
        j = i + 2
        closed = False
        while j + 1 < n:
            if text[j] == "*" and text[j + 1] == "/":
                closed = True
                break
            j += 1
        return (("comment" if closed else "bad", text[i:j + 2]), i, (j + 2 if closed else n))
    if c == ";":
        return (("semi", c), i, i + 1)
    if _is_word_start(c):
        j = i + 1
        while j < n and _is_word(text[j]):
            j += 1
        return (("word", text[i:j]), i, j)
    if _is_digit(c):
        j = i + 1
        while j < n and (_is_digit(text[j]) or text[j] == "."):
            j += 1
        return (("num", text[i:j]), i, j)
    two = text[i:i + 2]
    if two in ("<=", ">=", "!=", "<>", "||"):
        return (("op", two), i, i + 2)
    return (("op", c), i, i + 1)


def scan_spans(text: str):
    """[(token, start, end)] for the whole text."""
    out = []
    i = 0
    while True:
        tok, a, b = scan_one(text, i)
        if tok is None:
            return out
        out.append((tok, a, b))
        i = b


def scan(text: str) -> List[Tuple[str, str]]:
    return [t for t, _, _ in scan_spans(text)]


def skeleton(tokens: List[Tuple[str, str]]) -> List[Tuple[str, str]]:
    """token sequence with the *content* of string literals and quoted identifiers dropped."""
    return [(k, "" if k in ("str", "qid") else t) for k, t in tokens]
