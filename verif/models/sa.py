"""SQLAlchemy declarative twin of djapp.models (same table and column names)."""
import sqlalchemy as sa
from sqlalchemy.orm import declarative_base, relationship

Base = declarative_base()

parent_tags = sa.Table(
    "vt_parent_tags", Base.metadata,
    sa.Column("id", sa.Integer, primary_key=True),
    sa.Column("parent_id", sa.ForeignKey("vt_parent.id"), nullable=False),
    sa.Column("tag_id", sa.ForeignKey("vt_tag.id"), nullable=False),
)


class Item(Base):
    __tablename__ = "vt_item"
    id = sa.Column(sa.Integer, primary_key=True)
    n = sa.Column(sa.Integer)
    m = sa.Column(sa.Integer)
    name = sa.Column(sa.String(20))
    title = sa.Column(sa.String(20))
    flag = sa.Column(sa.Boolean)


class Tag(Base):
    __tablename__ = "vt_tag"
    id = sa.Column(sa.Integer, primary_key=True)
    t = sa.Column(sa.String(20))
    parents = relationship("Parent", secondary=parent_tags, back_populates="tags")


class Parent(Base):
    __tablename__ = "vt_parent"
    id = sa.Column(sa.Integer, primary_key=True)
    n = sa.Column(sa.Integer)
    name = sa.Column(sa.String(20))
    boss_id = sa.Column(sa.ForeignKey("vt_parent.id"))
    boss = relationship("Parent", remote_side=[id], back_populates="minions")
    minions = relationship("Parent", back_populates="boss")
    children = relationship("Child", back_populates="parent", foreign_keys="Child.parent_id")
    owned = relationship("Child", back_populates="owner", foreign_keys="Child.owner_id")
    tags = relationship("Tag", secondary=parent_tags, back_populates="parents")
    notes = relationship("Note", back_populates="parent")


class Child(Base):
    __tablename__ = "vt_child"
    id = sa.Column(sa.Integer, primary_key=True)
    parent_id = sa.Column(sa.ForeignKey("vt_parent.id"))
    k = sa.Column(sa.Integer)
    label = sa.Column(sa.String(20))
    owner_id = sa.Column(sa.ForeignKey("vt_parent.id"))
    parent = relationship("Parent", back_populates="children", foreign_keys=[parent_id])
    owner = relationship("Parent", back_populates="owned", foreign_keys=[owner_id])
    notes = relationship("Note", back_populates="child")


class Note(Base):
    __tablename__ = "vt_note"
    id = sa.Column(sa.Integer, primary_key=True)
    text = sa.Column(sa.String(20))
    parent_id = sa.Column(sa.ForeignKey("vt_parent.id"))
    child_id = sa.Column(sa.ForeignKey("vt_child.id"))
    parent = relationship("Parent", back_populates="notes")
    child = relationship("Child", back_populates="notes")
