"""Models for the ORM properties (C02, C03, C04, C15): one schema, declared twice.

  djapp/      a real Django app package (label "vt"); it must be listed in INSTALLED_APPS, otherwise reverse relations
              (children, minions, tags, owned) are not registered
  sa.py       the same tables as SQLAlchemy declarative classes
  setup.py    in-process configuration of Django on an in-memory SQLite, table creation, SQLAlchemy engine helpers
  schema.py   the same schema once more as symdb.TableSpec (what the solver quantifies over)

Tables (identical names and columns in both ORMs)
  vt_item(id, n INT NULL, m INT NULL, name TEXT NULL, title TEXT NULL, flag BOOL NULL)            scalar (C02/C03)
  vt_parent(id, n INT NULL, name TEXT NULL, boss_id -> vt_parent NULL)
  vt_child(id, parent_id -> vt_parent NULL, k INT NULL, label TEXT NULL, owner_id -> vt_parent NULL)
  vt_tag(id, t TEXT NULL)          vt_parent_tags(id, parent_id -> vt_parent, tag_id -> vt_tag)   many-to-many
  vt_note(id, text TEXT NULL, parent_id -> vt_parent NULL, child_id -> vt_child NULL)   `notes` exists on Parent AND Child
  sa2.py (SQLAlchemy only): vt2_ticket(owner -> vt2_user, project -> vt2_project NULL), vt2_project(owner -> vt2_team NOT NULL)
Collections: Parent.children (Child.parent), Parent.owned (Child.owner), Parent.minions (Parent.boss), Parent.tags.
"""
