"""The relational schema once more, independent of both ORMs: what the solver quantifies over and what the reference
semantics navigates.  Written from the schema description, not read from the ORM metadata."""
from __future__ import annotations

from ..sqlsmt.symdb import Col, TableSpec


def rel_specs(parents: int = 2, children: int = 3, tags: int = 2, links: int = 3, notes: int = 2):
    return [
        TableSpec("vt_note", [Col("id", "int", nullable=False, pk=True), Col("text", "str"),
                              Col("parent_id", "int", fk="vt_parent"), Col("child_id", "int", fk="vt_child")], slots=notes),
        TableSpec("vt_parent", [Col("id", "int", nullable=False, pk=True), Col("n", "int"), Col("name", "str"),
                                Col("boss_id", "int", fk="vt_parent")], slots=parents),
        TableSpec("vt_child", [Col("id", "int", nullable=False, pk=True), Col("parent_id", "int", fk="vt_parent"),
                               Col("k", "int"), Col("label", "str"), Col("owner_id", "int", fk="vt_parent")], slots=children),
        TableSpec("vt_tag", [Col("id", "int", nullable=False, pk=True), Col("t", "str")], slots=tags),
        TableSpec("vt_parent_tags", [Col("id", "int", nullable=False, pk=True),
                                     Col("parent_id", "int", nullable=False, fk="vt_parent"),
                                     Col("tag_id", "int", nullable=False, fk="vt_tag")], slots=links),
    ]


def rel_specs2(users: int = 2, teams: int = 2, projects: int = 2, tickets: int = 2):
    """Second schema (SQLAlchemy only, models/sa2.py): same-named relationships on different models."""
    return [
        TableSpec("vt2_user", [Col("id", "int", nullable=False, pk=True), Col("name", "str")], slots=users),
        TableSpec("vt2_team", [Col("id", "int", nullable=False, pk=True), Col("name", "str")], slots=teams),
        TableSpec("vt2_project", [Col("id", "int", nullable=False, pk=True), Col("name", "str"),
                                  Col("owner_id", "int", nullable=False, fk="vt2_team")], slots=projects),
        TableSpec("vt2_ticket", [Col("id", "int", nullable=False, pk=True), Col("n", "int"), Col("title", "str"),
                                 Col("owner_id", "int", fk="vt2_user"), Col("project_id", "int", fk="vt2_project")],
                  slots=tickets),
    ]


ROOT_TABLE = {"Parent": "vt_parent", "Child": "vt_child", "Tag": "vt_tag", "Item": "vt_item", "Note": "vt_note",
              "Ticket": "vt2_ticket", "Project": "vt2_project"}
SCHEMA2_MODELS = ("Ticket", "Project", "User", "Team")


def specs_for(model: str, slots=None):
    if model in SCHEMA2_MODELS:
        return rel_specs2(*(slots or ()))
    return rel_specs(*(slots or ()))


# (table, relationship name) -> ('one', target table, fk column on this table)
#                             | ('many', target table, fk column on the target pointing back)
#                             | ('m2m', target table, through table, column to this table, column to the target)
REL = {
    ("vt_parent", "boss"): ("one", "vt_parent", "boss_id"),
    ("vt_parent", "minions"): ("many", "vt_parent", "boss_id"),
    ("vt_parent", "children"): ("many", "vt_child", "parent_id"),
    ("vt_parent", "owned"): ("many", "vt_child", "owner_id"),
    ("vt_parent", "tags"): ("m2m", "vt_tag", "vt_parent_tags", "parent_id", "tag_id"),
    ("vt_child", "parent"): ("one", "vt_parent", "parent_id"),
    ("vt_child", "owner"): ("one", "vt_parent", "owner_id"),
    ("vt_tag", "parents"): ("m2m", "vt_parent", "vt_parent_tags", "tag_id", "parent_id"),
    # `notes`: a collection of the same name on two models
    ("vt_parent", "notes"): ("many", "vt_note", "parent_id"),
    ("vt_child", "notes"): ("many", "vt_note", "child_id"),
    ("vt_note", "parent"): ("one", "vt_parent", "parent_id"),
    ("vt_note", "child"): ("one", "vt_child", "child_id"),
    # second schema: `owner` names two different relationships
    ("vt2_ticket", "owner"): ("one", "vt2_user", "owner_id"),
    ("vt2_ticket", "project"): ("one", "vt2_project", "project_id"),
    ("vt2_project", "owner"): ("one", "vt2_team", "owner_id"),
}
