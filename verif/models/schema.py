"""The relational schema once more, independent of both ORMs: what the solver quantifies over and what the reference
semantics navigates.  Written from the schema description, not read from the ORM metadata."""
from __future__ import annotations

from ..sqlsmt.symdb import Col, TableSpec


def rel_specs(parents: int = 2, children: int = 3, tags: int = 2, links: int = 3):
    return [
        TableSpec("vt_parent", [Col("id", "int", nullable=False, pk=True), Col("n", "int"), Col("name", "str"),
                                Col("boss_id", "int", fk="vt_parent")], slots=parents),
        TableSpec("vt_child", [Col("id", "int", nullable=False, pk=True), Col("parent_id", "int", fk="vt_parent"),
                               Col("k", "int"), Col("label", "str"), Col("owner_id", "int", fk="vt_parent")], slots=children),
        TableSpec("vt_tag", [Col("id", "int", nullable=False, pk=True), Col("t", "str")], slots=tags),
        TableSpec("vt_parent_tags", [Col("id", "int", nullable=False, pk=True),
                                     Col("parent_id", "int", nullable=False, fk="vt_parent"),
                                     Col("tag_id", "int", nullable=False, fk="vt_tag")], slots=links),
    ]


ROOT_TABLE = {"Parent": "vt_parent", "Child": "vt_child", "Tag": "vt_tag", "Item": "vt_item"}

# (table, relationship name) -> ('one', target table, fk column on this table)
#                             | ('many', target table, fk column on the target pointing back)
#                             | ('m2m', target table, through table, column to this table, column to the target)
REL = {
    ("vt_parent", "boss"): ("one", "vt_parent", "boss_id"),
    ("vt_parent", "minions"): ("many", "vt_parent", "boss_id"),
    ("vt_parent", "children"): ("many", "vt_child", "parent_id"),
    ("vt_parent", "owned"): ("many", "vt_child", "owner_id"),
    ("vt_parent", "tags"): ("m2m", "vt_tag", "vt_parent_tags", "parent_id", "tag_id"),
    ("vt_child", "parent"): ("one", "vt_parent", "parent_id"),
    ("vt_child", "owner"): ("one", "vt_parent", "owner_id"),
    ("vt_tag", "parents"): ("m2m", "vt_parent", "vt_parent_tags", "tag_id", "parent_id"),
}
