from django.apps import AppConfig


class VtConfig(AppConfig):
    name = "verif.models.djapp"
    label = "vt"
    default_auto_field = "django.db.models.AutoField"
