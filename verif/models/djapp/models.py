from django.db import models


class Item(models.Model):
    n = models.IntegerField(null=True)
    m = models.IntegerField(null=True)
    name = models.CharField(max_length=20, null=True)
    title = models.CharField(max_length=20, null=True)
    flag = models.BooleanField(null=True)


class Tag(models.Model):
    t = models.CharField(max_length=20, null=True)


class PositiveManager(models.Manager):
    """A second, NON-default manager with a restriction of its own (C15 host)."""

    def get_queryset(self):
        return super().get_queryset().filter(n__gt=0)


class Parent(models.Model):
    objects = models.Manager()
    positive = PositiveManager()
    n = models.IntegerField(null=True)
    name = models.CharField(max_length=20, null=True)
    boss = models.ForeignKey("self", null=True, on_delete=models.SET_NULL, related_name="minions")
    tags = models.ManyToManyField(Tag, related_name="parents")


class Child(models.Model):
    parent = models.ForeignKey(Parent, null=True, on_delete=models.CASCADE, related_name="children")
    k = models.IntegerField(null=True)
    label = models.CharField(max_length=20, null=True)
    owner = models.ForeignKey(Parent, null=True, on_delete=models.CASCADE, related_name="owned")


class Note(models.Model):
    """`notes` is a collection of the same name on two models (Parent.notes, Child.notes)."""
    text = models.CharField(max_length=20, null=True)
    parent = models.ForeignKey(Parent, null=True, on_delete=models.CASCADE, related_name="notes")
    child = models.ForeignKey(Child, null=True, on_delete=models.CASCADE, related_name="notes")
