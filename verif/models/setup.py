"""In-process set-up of the two ORMs on in-memory SQLite databases (idempotent)."""
from __future__ import annotations

_DJANGO_READY = False


def django_setup():
    """Configure Django once per process and return the models module."""
    global _DJANGO_READY
    import django
    from django.conf import settings
    if not _DJANGO_READY:
        if not settings.configured:
            settings.configure(
                DATABASES={"default": {"ENGINE": "django.db.backends.sqlite3", "NAME": ":memory:"}},
                INSTALLED_APPS=["verif.models.djapp.apps.VtConfig"], USE_TZ=False,
                DEFAULT_AUTO_FIELD="django.db.models.AutoField")
        django.setup()
        _DJANGO_READY = True
    from .djapp import models
    return models


_TABLES_READY = False


def django_tables():
    """Create the tables on the in-memory connection of this process (once); returns the models module."""
    global _TABLES_READY
    models = django_setup()
    if not _TABLES_READY:
        from django.db import connection
        with connection.schema_editor() as ed:
            for m in (models.Item, models.Tag, models.Parent, models.Child, models.Note):
                ed.create_model(m)
        _TABLES_READY = True
    return models


def django_clear():
    models = django_tables()
    models.Note.objects.all().delete()
    models.Child.objects.all().delete()
    models.Parent.tags.through.objects.all().delete()
    models.Parent.objects.all().delete()
    models.Tag.objects.all().delete()
    models.Item.objects.all().delete()


def _strpos(x, y):
    if x is None or y is None:
        return None
    return str(x).find(str(y)) + 1


def _concat(*args):
    if any(a is None for a in args):
        return None
    return "".join(str(a) for a in args)


def sa_engine(register_assumed: bool = False):
    """A fresh in-memory SQLite engine with the SQLAlchemy tables created.  register_assumed=True registers strpos()
    (= INSTR) and concat() (= ||, NULL-propagating) on every connection: the fair replay for programs checked under
    the known finding sa-function-missing-on-sqlite."""
    import sqlalchemy as sa
    from sqlalchemy import event
    from . import sa as samodels
    eng = sa.create_engine("sqlite://")
    if register_assumed:
        @event.listens_for(eng, "connect")
        def _reg(dbapi_conn, _rec):                       # noqa: ANN001
            dbapi_conn.create_function("strpos", 2, _strpos)
            dbapi_conn.create_function("concat", -1, _concat)
    samodels.Base.metadata.create_all(eng)
    from . import sa2
    sa2.Base.metadata.create_all(eng)
    return eng
