"""A second small SQLAlchemy schema: two DIFFERENT relationships that share the attribute name `owner` on different
models and point to different tables (Ticket.owner -> User, Project.owner -> Team).  A filter such as
`project/owner/name eq 'a' and owner/name eq 'b'` needs both of them joined."""
import sqlalchemy as sa
from sqlalchemy.orm import declarative_base, relationship

Base = declarative_base()


class User(Base):
    __tablename__ = "vt2_user"
    id = sa.Column(sa.Integer, primary_key=True)
    name = sa.Column(sa.String(20))


class Team(Base):
    __tablename__ = "vt2_team"
    id = sa.Column(sa.Integer, primary_key=True)
    name = sa.Column(sa.String(20))


class Project(Base):
    __tablename__ = "vt2_project"
    id = sa.Column(sa.Integer, primary_key=True)
    name = sa.Column(sa.String(20))
    owner_id = sa.Column(sa.ForeignKey("vt2_team.id"), nullable=False)     # NOT NULL key after the nullable hop Ticket.project
    owner = relationship("Team")


class Ticket(Base):
    __tablename__ = "vt2_ticket"
    id = sa.Column(sa.Integer, primary_key=True)
    n = sa.Column(sa.Integer)
    title = sa.Column(sa.String(20))
    owner_id = sa.Column(sa.ForeignKey("vt2_user.id"))
    owner = relationship("User")
    project_id = sa.Column(sa.ForeignKey("vt2_project.id"))
    project = relationship("Project")
