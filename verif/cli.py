"""vt check <Cxx> [--tier quick|thorough] | vt replay <file>"""
import argparse
import importlib
import os
import sys


def main(argv=None):
    ap = argparse.ArgumentParser(prog="vt")
    sub = ap.add_subparsers(dest="cmd", required=True)
    c = sub.add_parser("check")
    c.add_argument("pid")
    c.add_argument("--tier", choices=["quick", "thorough"], default=None)
    c.add_argument("--progress", action="store_true")
    r = sub.add_parser("replay")
    r.add_argument("path")
    a = ap.parse_args(argv)
    if a.cmd == "check":
        if a.tier:
            os.environ["VERIF_TIER"] = a.tier
        if a.progress:
            os.environ["VERIF_PROGRESS"] = "1"
        mod = importlib.import_module(f"verif.props.{a.pid.lower()}")
        sys.exit(mod.main())
    if a.cmd == "replay":
        from verif import replay
        sys.exit(replay.main(a.path))


if __name__ == "__main__":
    main()
