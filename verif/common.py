"""Shared plumbing: tiers/seeds, obligations, known findings, replay files, evidence, exit codes.

Exit codes (DESIGN.md section 1):
  0  held on everything explored (possibly with KNOWN-FINDING lines)
  1  at least one *replayed* violation that known_findings.json does not list
  2  the current source cannot be encoded / nothing could be decided (inconclusive)
  3  harness error: a solver counterexample did not reproduce on the real code
"""
from __future__ import annotations

import json
import os
import sys
import time
import hashlib
from pathlib import Path
from typing import Any, Callable, Dict, List, Optional

ROOT = Path(__file__).resolve().parent.parent
REPO = Path(os.environ.get("VERIF_REPO", "/repo"))
EVIDENCE_DIR = Path(os.environ.get("VERIF_EVIDENCE_DIR", str(ROOT / "evidence")))   # override only for scratch runs on seeded changes
REPLAY_DIR = ROOT / "replays"
KNOWN_FILE = ROOT / "known_findings.json"

DISCHARGED = "discharged"      # solver: unsat / CrossHair: Confirmed over all paths
VIOLATION = "violation"        # solver counterexample, reproduced on the real code, not listed
KNOWN = "known"                # reproduced, listed in known_findings.json as known
INCONCLUSIVE = "inconclusive"  # unknown / timeout / not confirmed / precondition unmet
HARNESS_ERROR = "harness_error"  # counterexample that does not reproduce


def tier_from_env(default: str = "quick") -> str:
    t = os.environ.get("VERIF_TIER", default)
    return t if t in ("quick", "thorough") else default


def seed_from_env() -> int:
    try:
        return int(os.environ.get("VERIF_SEED", "0"))
    except ValueError:
        return 0


def load_known(pid: str) -> List[dict]:
    if not KNOWN_FILE.exists():
        return []
    data = json.loads(KNOWN_FILE.read_text())
    return [f for f in data.get("findings", []) if f.get("property") == pid and f.get("status") == "known"]


def jsonable(x: Any) -> Any:
    if isinstance(x, (str, int, float, bool)) or x is None:
        return x
    if isinstance(x, (list, tuple, set, frozenset)):
        return [jsonable(i) for i in x]
    if isinstance(x, dict):
        return {str(k): jsonable(v) for k, v in x.items()}
    return repr(x)


class Run:
    """Collects the obligations of one check run and writes the evidence file."""

    def __init__(self, pid: str, level: str, tier: Optional[str] = None, seed: Optional[int] = None):
        self.pid = pid
        self.level = level
        self.tier = tier or tier_from_env()
        self.seed = seed_from_env() if seed is None else seed
        self.t0 = time.time()
        self.obls: List[dict] = []
        self.functions_encoded: List[str] = []
        self.bounds: Dict[str, Any] = {}
        self.outside: List[str] = []
        self.assumptions: List[str] = []
        self.samples: List[Any] = []
        self.notes: List[str] = []
        self.extra: Dict[str, Any] = {}
        self.solver_s = 0.0
        self.known = load_known(pid)
        self.known_hit: Dict[str, str] = {}
        self._violations = 0
        self._nontrivial: set = set()
        self.programs = 0
        self.disagreements_checked = 0
        self.traces_validated = 0

    # ------------------------------------------------------------------ bookkeeping
    def encode(self, *names: str) -> None:
        for n in names:
            if n not in self.functions_encoded:
                self.functions_encoded.append(n)

    def sample(self, s: Any, cap: int = 12) -> None:
        if len(self.samples) < cap:
            self.samples.append(jsonable(s))

    def add(self, name: str, status: str, family: str = "", detail: Any = None, solver_s: float = 0.0,
            nontrivial: bool = True) -> None:
        self.obls.append({"name": name, "family": family, "status": status,
                          "detail": jsonable(detail), "solver_s": round(solver_s, 3)})
        self.solver_s += solver_s
        if nontrivial:
            self._nontrivial.add(name)

    def discharged(self, name: str, family: str = "", solver_s: float = 0.0, detail: Any = None,
                   nontrivial: bool = True) -> None:
        self.add(name, DISCHARGED, family, detail, solver_s, nontrivial)

    def inconclusive(self, name: str, family: str = "", why: Any = None, solver_s: float = 0.0) -> None:
        self.add(name, INCONCLUSIVE, family, why, solver_s)

    def harness_error(self, name: str, family: str = "", why: Any = None, solver_s: float = 0.0) -> None:
        self.add(name, HARNESS_ERROR, family, why, solver_s)
        print(f"HARNESS-ERROR property={self.pid} obligation={name}: {why}", flush=True)

    def match_known(self, predicate: Callable[[dict], bool]) -> Optional[dict]:
        for k in self.known:
            try:
                if predicate(k):
                    return k
            except Exception:
                continue
        return None

    def known_finding(self, entry: dict, what: str, name: str = "", family: str = "", solver_s: float = 0.0,
                      detail: Any = None) -> None:
        kid = entry.get("id", "?")
        if kid not in self.known_hit:
            self.known_hit[kid] = what
            print(f"KNOWN-FINDING: property={self.pid} id={kid} {what}", flush=True)
        self.add(name or f"known:{kid}", KNOWN, family, detail if detail is not None else what, solver_s)

    def violation(self, name: str, witness: dict, what: str, family: str = "", solver_s: float = 0.0) -> str:
        """A reproduced counterexample that is not a known finding."""
        REPLAY_DIR.joinpath(self.pid).mkdir(parents=True, exist_ok=True)
        h = hashlib.sha1(json.dumps(jsonable(witness), sort_keys=True).encode()).hexdigest()[:10]
        path = REPLAY_DIR / self.pid / f"{h}.json"
        path.write_text(json.dumps({"property": self.pid, "tier": self.tier, "seed": self.seed,
                                    "obligation": name, "what": what,
                                    "witness": jsonable(witness)}, indent=1, ensure_ascii=False))
        self._violations += 1
        self.add(name, VIOLATION, family, {"what": what, "replay": str(path)}, solver_s)
        print(f"VIOLATION property={self.pid} replay={path}", flush=True)
        print(f"  obligation={name}: {what}", flush=True)
        return str(path)

    # ------------------------------------------------------------------ output
    def counts(self) -> Dict[str, int]:
        c: Dict[str, int] = {}
        for o in self.obls:
            c[o["status"]] = c.get(o["status"], 0) + 1
        return c

    def finish(self) -> int:
        c = self.counts()
        wall = time.time() - self.t0
        n = len(self.obls)
        fams: Dict[str, Dict[str, int]] = {}
        fam_s: Dict[str, float] = {}
        for o in self.obls:
            f = fams.setdefault(o["family"] or "-", {})
            f[o["status"]] = f.get(o["status"], 0) + 1
            fam_s[o["family"] or "-"] = round(fam_s.get(o["family"] or "-", 0.0) + o["solver_s"], 1)
        coverage: Dict[str, Any] = {
            "evaluations": max(n, 1) if n else 0,
            "distinct_nontrivial": len(self._nontrivial),
            "rule": self.extra.pop("rule", "one evaluation = one solver obligation (z3 query or CrossHair condition); "
                                            "distinct = distinct obligation names; non-trivial = the obligation "
                                            "quantifies over at least one symbolic variable"),
            "samples": self.samples or [o["name"] for o in self.obls[:8]],
            "obligations": n,
            "discharged": c.get(DISCHARGED, 0),
            "known_findings": c.get(KNOWN, 0),
            "inconclusive": c.get(INCONCLUSIVE, 0),
            "violations": c.get(VIOLATION, 0),
            "harness_errors": c.get(HARNESS_ERROR, 0),
            "by_family": fams,
            "solver_s_by_family": fam_s,
            "solver_s": round(self.solver_s, 2),
            "functions_encoded": self.functions_encoded,
            "bounds": jsonable(self.bounds),
            "outside_bounds": self.outside,
            "known_findings_hit": self.known_hit,
            "inconclusive_obligations": [o["name"] for o in self.obls if o["status"] == INCONCLUSIVE][:40],
            "notes": self.notes,
            "exhaustive": False,
        }
        if self.level == "translation_validation":
            coverage["programs"] = self.programs
            coverage["disagreements_checked"] = self.disagreements_checked
        if self.traces_validated:
            coverage["traces_validated_against_impl"] = self.traces_validated
        coverage.update(jsonable(self.extra))
        ev = {
            "property_id": self.pid,
            "tier": self.tier,
            "seed": self.seed,
            "level": self.level,
            "coverage": coverage,
            "assumptions": self.assumptions,
            "wall_s": round(wall, 2),
            "violations": c.get(VIOLATION, 0),
        }
        EVIDENCE_DIR.mkdir(parents=True, exist_ok=True)
        (EVIDENCE_DIR / f"{self.pid}.json").write_text(json.dumps(ev, indent=1, ensure_ascii=False) + "\n")
        print(f"[{self.pid}] tier={self.tier} seed={self.seed} obligations={n} " +
              " ".join(f"{k}={v}" for k, v in sorted(c.items())) +
              f" solver_s={self.solver_s:.1f} wall_s={wall:.1f}", flush=True)
        if c.get(VIOLATION, 0):
            return 1
        if c.get(HARNESS_ERROR, 0):
            return 3
        if n == 0 or (c.get(DISCHARGED, 0) + c.get(KNOWN, 0)) == 0:
            print(f"[{self.pid}] nothing was decided: inconclusive", flush=True)
            return 2
        return 0
