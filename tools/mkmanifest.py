#!/usr/bin/env python3
"""Regenerate /verif/MANIFEST.json from the table below and validate it against the schema."""
import json
import os
import sys

HERE = os.path.dirname(os.path.dirname(os.path.abspath(__file__)))

CB = "CrossHair 0.0.110 (symbolic execution of the real Python with z3)"
CHECKS = {
    "C17": dict(
        level="model_checking", engine="chx", design="DESIGN.md section 4 C17",
        technique="CrossHair symbolic execution (z3) of expression_relative_to_identifier / IdentifierStripper, "
                  "one condition per tree shape, all names and operators symbolic, vs an independent re-rooting oracle",
        text="Bounded model checking of the real IdentifierStripper: for each enumerated tree shape CrossHair+z3 covers "
             "every assignment of names (1 code point each) and operators and reports 'Confirmed over all paths' or a "
             "counterexample that is replayed concretely. Not a proof: shapes beyond the enumerated bound are outside.",
        note="Trusts CrossHair's path exhaustion and z3; names of length 1 (only equality between names is inspected); "
             "tree shapes enumerated to nesting depth 1 exhaustively, depth 2 sampled by VERIF_SEED."),
    "C16": dict(
        level="model_checking", engine="chx", design="DESIGN.md section 4 C16",
        technique="CrossHair symbolic execution (z3) of NodeVisitor/NodeTransformer/dataclass equality and the shipped "
                  "pure-Python visitors, one condition per tree shape and assertion family, vs independent pre-order / "
                  "replacement oracles",
        text="Bounded model checking of the real visitor base classes: per enumerated tree shape CrossHair+z3 covers all "
             "leaf strings (1 code point), operator choices, the choice of overridden handler kind and of shipped visitor; "
             "counterexamples are replayed concretely.",
        note="Trusts CrossHair path exhaustion and z3; names hashed by the rewriter / regex-scanned by the Athena dialect are "
             "symbolic picks from a 3-name pool (a symbolic str never closes there); ORM visitors' no-mutation clause is "
             "exercised by the ORM properties, not here."),
    "C14": dict(
        level="model_checking", engine="chx", design="DESIGN.md section 4 C14",
        technique="CrossHair symbolic execution (z3) of AliasRewriter over per-shape harnesses with every name symbolic "
                  "(hash-free alias Mapping stub), vs an independent scoped-substitution oracle; constructor on picked texts",
        text="Bounded model checking of the real AliasRewriter: per (tree shape, alias-map shape) CrossHair+z3 covers every "
             "assignment of names, hence every coincidence between alias keys and function / parameter / lambda-variable "
             "names; identity, no-mutation and bijection-inverse clauses per shape; counterexamples replayed concretely.",
        note="Trusts CrossHair/z3; alias map handed over as a hash-free Mapping (== scan) because symbolic strings cannot be "
             "hashed; names of length 1; maps of <= 2 keys; the text-parsing constructor is covered on picked concrete texts only."),
    "C01": dict(
        level="translation_validation", engine="sqlsmt", design="DESIGN.md section 4 C01",
        technique="translation validation: z3 (bit-vector) equivalence of the emitted SQLite WHERE text (independent SQL "
                  "parser + SQLite semantics model) with an OData reference semantics over an all-symbolic row; sat models "
                  "replayed on real sqlite3",
        text="Per generated filter the live lexer/parser/SQLite visitor produce the program; z3 decides, for every row "
             "within the bound at once, whether SQLite would select exactly the rows OData keeps. unsat = right for all "
             "rows in the bound; sat = a concrete row that is inserted into a real sqlite3 database and compared with the "
             "reference before being reported.",
        note="Trusts z3, the SQLite model (validated against real sqlite3 on every run) and the OData reference semantics; "
             "integers in [-8,8] (16-bit, no overflow), strings <= 3 chars over a 9-char metacharacter alphabet; division by "
             "zero / out-of-range substring assumed away; floats, date/time functions outside; two known findings "
             "(SQLite LIKE case folding, unescaped field-valued LIKE patterns) excluded by region."),
    "C09": dict(
        level="translation_validation", engine="sqlsmt", design="DESIGN.md section 4 C09",
        technique="translation validation in uninterpreted-function mode: z3 validity of SQLterm == ODataTerm with dialect "
                  "functions uninterpreted, plus independent SQL parsing (well-formedness), leaf multiset and alias stripping",
        text="Per generated filter x 3 dialects x alias: the emitted text must parse with an independent SQL parser, its "
             "tree must be equal to the filter's for all field values (z3, functions uninterpreted, related by a template "
             "table), contain every leaf exactly once, and the alias must qualify exactly the column references.",
        note="Trusts z3, the independent SQL parser and the function template table; no engine exists here for standard SQL / "
             "Athena, so counterexamples are replayed by re-running the live visitor and evaluating both trees under the "
             "counter-model; known finding: standard-dialect floor/ceiling text (pinned by the repo's tests) is not SQL."),
    "C18": dict(
        level="model_checking", engine="chx", design="DESIGN.md section 4 C18",
        technique="CrossHair symbolic execution (z3) of infer_type / infer_return_type / typecheck with a free symbolic "
                  "function name and symbolic producer choices of a typed expression generator, vs an independent OData "
                  "return-type table",
        text="Bounded model checking of the real type inference: the function name is an unconstrained symbolic string "
             "(<= 18 chars), nested typed expressions to depth 3 with every inner producer choice symbolic; asserts "
             "inferred type in {unknown, actual type}, typecheck never rejects a well-typed argument and rejects literals "
             "of a disallowed kind; counterexamples replayed concretely.",
        note="Trusts CrossHair/z3 and the reference return-type table transcribed from OData 4.01; nothing is claimed for "
             "ill-typed expressions or names that are not built-ins."),
    "C11": dict(
        level="model_checking", engine="chx", design="DESIGN.md section 4 C11",
        technique="CrossHair symbolic execution (z3) of ODataParser._function_call and of the real lexer+parser on call "
                  "texts, with symbolic picks of name (run-time pool incl. near-misses), namespace and argument count, vs an "
                  "independent OData arity table",
        text="Bounded model checking of call acceptance: for every pool name x namespace kind x argument count 0..5 "
             "CrossHair certifies exhaustion of the case split; outcome class, the four exception payload fields and "
             "argument order are compared with a reference arity table; both the action and the text->parser entry point.",
        note="Names are picks from a pool (live table, reference table, case variants, prefixes, extensions, fresh names) "
             "because the table lookup hashes the name; names outside the pool are argued (KeyError branch), not decided."),
    "C05": dict(
        level="model_checking", engine="chx", design="DESIGN.md section 4 C05",
        technique="CrossHair (z3) case-split over symbolic operator assignments per tree skeleton; reference printer (spec "
                  "precedence table only) -> real lexer/parser -> decoded AST compared with the printed tree",
        text="Exhaustive bounded model checking of operator grouping: every skeleton of binary / unary / in nodes up to the "
             "bound, every assignment of the 13 binary and 2 unary operators (symbolic indices; CrossHair certifies the case "
             "split is complete), three parenthesisations (minimal, full, full+outer).",
        note="Finite-domain symbolic execution: the text is concrete on each path, the solver contributes completeness of the "
             "operator case split, not arithmetic insight; trusts the reference printer's transcription of OData 4.01 5.1.1.14."),
    "C13": dict(
        level="model_checking", engine="chx", design="DESIGN.md section 4 C13",
        technique="CrossHair (z3) over AstToODataVisitor + real lexer/parser per skeleton with symbolic operators, plus leaf "
                  "lemmas with symbolic string contents (render in token language; real token action == reference decoder)",
        text="parse(render(t)) == t and render fixpoint for every skeleton up to the bound with all operator assignments and "
             "for explicit shape families (all literal kinds, singleton/nested lists, namespaces, paths, lambdas, named "
             "parameters, unary chains); arbitrary string contents through the render/decode leaf lemmas.",
        note="Symbolic text cannot be lexed under CrossHair, so arbitrary string contents are covered by composing the leaf "
             "lemmas with C06's Engine-A obligation that every member of the STRING language is one STRING token."),
    "C06": dict(
        level="model_checking", engine="rexcirc+chx", design="DESIGN.md section 4 C06",
        technique="z3 over the live SLY master regex translated to a prioritised-NFA circuit on a bounded symbolic string "
                  "(kind and extent of every literal kind vs an independent ABNF transcription), plus CrossHair on the real "
                  "token actions / py_val (values)",
        text="For each literal kind and for identifiers: for every text s.d.rest with s in the reference (ABNF) language and d a "
             "legal delimiter, the first lexer step yields exactly that kind with extent |s| (z3, all characters symbolic within "
             "N); literal followed by an operator lexes the operator next; token actions and py_val compute the exact value "
             "(CrossHair, symbolic lexemes / small ints).",
        note="Bounds per kind N=16/20/44, alphabet ASCII + representatives of every non-ASCII class of the pattern (partition "
             "computed with re on each run); circuit validated against re on ~4000 samples and on every witness per run; "
             "float/calendar py_val evaluated on finite pools; one known finding (combining marks inside identifiers)."),
    "C19": dict(
        level="model_checking", engine="rexcirc+chx", design="DESIGN.md section 4 C19",
        technique="z3 over two coupled lexer circuits (ASCII case-flip invariance of kind/extent; operator keywords with "
                  "arbitrary whitespace runs), CrossHair on token actions / py_val under case changes and on the real parser "
                  "with symbolic optional-whitespace / keyword-case choices",
        text="Lexer level: for every text within the bound, flipping the case of any subset of ASCII letters does not change "
             "token kind/extent; every operator keyword with any whitespace run of length 1..3 on both sides is exactly that "
             "operator token. Value level: Boolean/duration/exponent/T-Z spellings give equal values.",
        note="Lexer-level claims are bounded by N (16..44) and the working alphabet; parser/backends layers use symbolic "
             "layout picks on enumerated filter shapes (text concrete per path)."),
    "C07": dict(
        level="model_checking", engine="chx", design="DESIGN.md section 4 C07",
        technique="CrossHair symbolic execution (z3) of the three SQL dialect visitors with the string-literal content "
                  "(<= 3 arbitrary code points) and field names symbolic; non-interference of the token sequence decided with "
                  "an independent SQL scanner run inside the harness",
        text="Per (dialect, alias, syntactic position): for every literal content within the bound the emitted SQL has the "
             "same token sequence outside string literals / quoted identifiers as for the empty literal, the same number of "
             "string tokens, and the literal's token decodes back to the content; likewise for field names.",
        note="Trusts CrossHair/z3 and the standard-SQL scanner (verif/sqllex); content length <= 3 (LIKE-pattern positions in "
             "quick: <= 2); known finding: the ESCAPE clause is appended only when the literal contains a wildcard (pinned "
             "tests forbid always emitting it), normalised away before comparison."),
    "C12": dict(
        level="model_checking", engine="chx", design="DESIGN.md section 4 C12",
        technique="CrossHair symbolic execution (z3) of all seven backends' visitors with symbolic picks of (node kind, "
                  "operand position) and symbolic string leaves; outcome classification (translation / library exception / "
                  "foreign exception / placeholder), plus a concrete sentinel completeness pre-pass",
        text="For every well-typed (node kind x operand position x backend) combination CrossHair certifies, for every "
             "choice inside the chunk and every string content within the bound, that the backend either returns a "
             "translation of the right type without placeholder text or raises a library exception (NotImplementedError only "
             "for SQLAlchemy Core paths/lambdas); unknown SQLAlchemy field names (symbolic pick from dir(Model)) give "
             "InvalidFieldException.",
        note="Completeness (every field/literal represented) is a concrete sentinel check composed with C07/C08 "
             "non-interference; SQLAlchemy ORM lambdas are enumerated concretely (relationship.any() is not executable under "
             "CrossHair); ImportError for Django geo functions without GeoDjango is treated as the documented refusal."),
    "C02": dict(
        level="translation_validation", engine="sqlsmt", design="DESIGN.md section 4 C02",
        technique="translation validation: z3 (bit-vector) equivalence of the SQL+parameters compiled by the live Django "
                  "shorthand (independent SQL parser + SQLite model) with an OData reference semantics over an all-symbolic "
                  "row; sat models replayed through the Django ORM on in-memory SQLite",
        text="Per generated filter the live apply_odata_query(...).query.sql_with_params() is the program; z3 decides for "
             "every row within the bound whether Django/SQLite returns exactly the rows OData keeps; counterexamples are "
             "inserted with the ORM and the real queryset result is compared with the reference.",
        note="Trusts z3, the SQLite model (validated against sqlite3 each run) and the OData reference; bounds as C01; "
             "Python-UDF functions (date/time extraction, regex) are outside; known findings: SQLite LIKE case folding, "
             "Django Concat reading NULL as '', constant null tests and nested lookups losing parentheses inside comparisons."),
    "C03": dict(
        level="translation_validation", engine="sqlsmt", design="DESIGN.md section 4 C03",
        technique="translation validation: z3 equivalence of the three SQLAlchemy programs (select(Model), legacy Query, Core) "
                  "compiled for SQLite with the OData reference and with each other over a symbolic row; keyword-case "
                  "re-spellings must give SMT-equivalent programs; sat models replayed on in-memory SQLite",
        text="Three live programs per filter, each proved equivalent to the reference and pairwise equivalent for all rows "
             "in the bound; TRUE/True/true and operator-keyword case variants must compile to equivalent programs.",
        note="Known findings handled by adjusted references / assumed functions rather than skipping: div as REAL division, "
             "strpos()/concat() missing on this SQLite, LIKE case folding, unescaped field-valued LIKE patterns."),
    "C04": dict(
        level="translation_validation", engine="sqlsmt", design="DESIGN.md section 4 C04",
        technique="translation validation in relational mode: z3 over a bounded symbolic database (2 parents, 3 children, 2 "
                  "tags, 3 link rows, symbolic presence / cells / nullable foreign keys) - Django and SQLAlchemy programs "
                  "(EXISTS, joins unrolled over slots) vs an OData reference for paths and any/all lambdas, and vs each other",
        text="For every filter of the relational grammar (to-one paths to depth 3 incl. NULL keys, any(), any(x:p), "
             "all(x:p) nested to depth 2, and/or/not) z3 decides over every database content within the slot bounds whether "
             "each ORM returns exactly the denoted parents; counterexample databases are loaded into real SQLite through "
             "each ORM.",
        note="Referential integrity assumed; slot bounds 2/3/2/3; known findings (static regions, i.e. those programs are not "
             "decided): SQLAlchemy lambda-body joins dropped, same table joined twice without alias, root column inside a "
             "lambda body (both ORMs), SQLAlchemy self-referential navigation."),
    "C15": dict(
        level="translation_validation", engine="sqlsmt", design="DESIGN.md section 4 C15",
        technique="z3 over the symbolic database: rows(apply(base, f)) == rows(base) intersect rows(f) for enumerated host "
                  "queries (pre-filtered, pre-joined, ordered, annotated, legacy Query/select, Manager/QuerySet), structural "
                  "checks on the parsed program (ORDER BY, prior conjuncts, each relationship joined once); registry clause as "
                  "a labelled finite configuration sweep in fresh subprocesses",
        text="The shorthand's program is compared, for all database contents in the bound, with the conjunction of the "
             "host query and the filter; pre-existing ordering / conditions / annotations must survive and no relationship "
             "may be joined twice.",
        note="The sqlalchemy.func registry clause is a finite sweep (76 names x 2 import orders), not a solver verdict - "
             "labelled as such in the evidence."),
    "C08": dict(
        level="model_checking", engine="chx", design="DESIGN.md section 4 C08",
        technique="CrossHair symbolic execution (z3) of the Django visitor + QuerySet.filter + sql_with_params and of the "
                  "SQLAlchemy visitors with the literal value symbolic; SQL template / clause-tree signature compared with a "
                  "baseline instantiation; SQLAlchemy compiled text re-checked concretely",
        text="Per syntactic position: for every literal value within the bound the Django SQL template and parameter count "
             "equal the baseline's; the SQLAlchemy clause tree has no text / literal-column / literal-execute element and the "
             "same signature as the baseline, the value travelling in a BindParameter.",
        note="SQLAlchemy's compiler is trusted (BindParameter -> placeholder), re-checked concretely on adversarial values; "
             "in-list values on Django are pool picks (its In lookup hashes them); known findings: conditional ESCAPE '/' "
             "clause and inline boolean constants on SQLAlchemy (both pinned by the repo's tests)."),
    "C10": dict(
        level="model_checking", engine="rexcirc+chx", design="DESIGN.md section 4 C10",
        technique="three composed layers: z3 over the lexer circuit (every step is a rule match with progress, a literal or "
                  "an error that raises TokenizingException; no rule matches the empty string; token actions total), CrossHair "
                  "inductive step over every grammar action from arbitrary invariant-satisfying stack values (with witness "
                  "synthesis through the real parser), CrossHair over the real LR driver on symbolic token sequences",
        text="Assume/guarantee composition: any text either fails in the lexer with TokenizingException or yields tokens "
             "whose values are AST nodes; every reduction maps invariant-satisfying values to invariant-satisfying values or "
             "raises a library exception; the driver on every token sequence up to the bound returns a node or raises "
             "ParsingException / a function-call exception, deterministically.",
        note="Bounds: lexer N=16..44 and alphabet as C06; grammar-action value shapes nested <= 3 with symbolic picks; driver "
             "token sequences of length <= 3 (quick) / <= 4 (thorough) over one atom per LR-indistinguishable terminal class. "
             "The long-input regime (thousands of segments, 64 KB) is replayed concretely only - no solver claim; a time-out "
             "there is reported as inconclusive."),
    "C20": dict(
        level="model_checking", engine="chx", design="DESIGN.md section 4 C20",
        technique="CrossHair (z3) inductive step: every instance attribute of a used lexer / parser overwritten by a symbolic "
                  "value of its type (callables / iterators by poison objects), then a probe string parsed and compared with "
                  "a fresh pair; plus labelled concrete sweeps (call histories, PYTHONHASHSEED / import order in subprocesses)",
        text="One step from an arbitrary stale instance state covers call histories of any length: for each probe (valid, "
             "syntax error, tokenising error, unknown function, argument count) the outcome equals a fresh pair's for every "
             "stale value; AliasRewriter built with poisoned caller-supplied instances equals the one built with fresh ones.",
        note="Stale values: ints, bools, short strings, int lists (symbolic), poison objects for callables; the history sweep "
             "(258 histories x 9 probes) and the hash-seed / import-order sweep (8 / 32 subprocesses) are finite "
             "configuration sweeps, not solver verdicts, and are labelled so."),
}

NOT_YET = {}

PENDING_REASON = ("check not built yet in this round (solver-based design in DESIGN.md section 4); "
                  "listed here until its check is registered")


def main():
    props = [json.loads(l) for l in open(os.path.join(HERE, "properties.jsonl"))]
    checks = []
    na = []
    for p in props:
        pid = p["id"]
        c = CHECKS.get(pid)
        if c is None:
            na.append({"property_id": pid, "reason": NOT_YET.get(pid, PENDING_REASON)})
            continue
        checks.append({
            "property_id": pid,
            "quick_cmd": f"./vt check {pid} --tier quick",
            "thorough_cmd": f"./vt check {pid} --tier thorough",
            "evidence_file": f"/verif/evidence/{pid}.json",
            "replay_cmd_template": "./vt replay {path}",
            "engine": c["engine"],
            "level_claimed": {"category": c["level"], "text": c["text"], "design_ref": c["design"]},
            "level_note": c["note"],
            "technique": c["technique"],
        })
    man = {
        "version": 1,
        "setup_cmd": "./vt setup",
        "hooks": {
            "guard": "ODATA_QUERY_VERIF",
            "enable": "no hooks are needed: every observation point is public API or an attribute of the imported "
                      "classes; the guard name is reserved and unused",
            "baseline_off_cmd": "cd /repo && /venv/bin/python -m pytest -ra -q -p no:cacheprovider --timeout=900 "
                                "--continue-on-collection-errors",
            "source_commits": SOURCE_COMMITS,
            "add_only": True,
        },
        "engines": [
            {"name": "rexcirc", "path": "verif/rexcirc.py", "serves_properties": ["C06", "C07", "C10", "C19"],
             "kind_free_text": "the live SLY master regex translated to a prioritised-NFA z3 circuit over a bounded symbolic string"},
            {"name": "chx", "path": "verif/chx.py", "serves_properties": ["C05", "C06", "C07", "C08", "C10", "C11", "C12", "C13", "C14", "C16", "C17", "C18", "C19", "C20"],
             "kind_free_text": CB + ", generated per-shape PEP316 harnesses, counterexamples replayed concretely"},
            {"name": "sqlsmt", "path": "verif/sqlsmt/", "serves_properties": ["C01", "C02", "C03", "C04", "C09", "C15"],
             "kind_free_text": "translation validation of the emitted SQL against an OData reference semantics over a bounded symbolic database (z3 bit-vectors), witnesses replayed on real SQLite"},
        ],
        "checks": checks,
        "not_applicable": na,
        "notes": "All checks are solver-based (z3 directly or inside CrossHair) and regenerate their encoding from "
                 "/repo's working tree on every run. Exit 0 held / 1 VIOLATION (replayed) / 2 not encodable or nothing "
                 "decided / 3 harness error (non-reproducing counterexample). See DESIGN.md.",
    }
    out = os.path.join(HERE, "MANIFEST.json")
    json.dump(man, open(out, "w"), indent=1)
    try:
        import jsonschema
        jsonschema.validate(man, json.load(open("/root/.vp/MANIFEST.schema.json")))
        print("MANIFEST.json valid;", len(checks), "checks,", len(na), "not_applicable")
    except ImportError:
        print("written (jsonschema not available to validate)")


SOURCE_COMMITS = [
    "84fe7aa fix: AliasRewriter no longer rewrites function names, parameter names and lambda variables",
    "8ec0b37 fix: SQL dialects keep the grouping of arithmetic, NOT and infix function operands",
    "cfe0caf fix: SQL dialects render unary minus instead of the text 'None'",
    "88f1746 fix: SQL dialects translate 'null eq x' to IS NULL like 'x eq null'",
    "beff0df fix: SQL dialects quote and escape literal LIKE patterns",
    "71d765e fix: SQL dialects render a duration without components as a zero interval",
    "7cccd2c fix: parsing a call with three or more named parameters no longer raises AttributeError",
    "255f608 fix: roundtrip doubles single quotes inside string literals",
    "caa24d8 fix: roundtrip renders single item lists with a trailing comma",
    "775739e fix: roundtrip keeps parentheses around right operands of equal precedence",
    "43553c4 fix: roundtrip supports named parameters and geography literals",
    "606e76a fix: collection lambdas on paths of three or more segments parse instead of raising AttributeError",
    "2c4c693 fix: SQLAlchemy backends read boolean literals case-insensitively",
    "0d44a5e fix: SQLAlchemy backends translate 'null eq x' to IS NULL like 'x eq null'",
    "685f5e9 fix: SQLAlchemy backends escape LIKE wildcards in literal search strings",
    "ceaa604 fix: SQLAlchemy ORM shorthand joins navigated relationships with an outer join",
    "872e0a9 fix: Django all() lambdas are negated again on recent Django versions",
    "90e0209 fix: Django backend accepts the null literal on the left of eq/ne",
    "09d9d61 fix: identifiers starting with a keyword are no longer split by the lexer",
    "5b1d5e9 fix: time literals no longer accept a doubled colon before the seconds",
    "8c291c9 fix: dates with a year below 1000 are recognised as dates",
    "2cc12b4 fix: identifiers may start with a non-ASCII letter",
    "9fcac0b fix: SQL dialects translate time literals instead of emitting the text 'None'",
    "b32a8eb fix: backends refuse nodes they cannot translate instead of dropping them",
    "014ecd9 fix: Django backend accepts the null literal outside of eq/ne comparisons",
    "7f92452 fix: SQLAlchemy ORM reports a path through a plain column as an invalid field",
    "b2f2aa1 fix: SQLAlchemy ORM only accepts mapped attributes as fields",
    "568eac8 fix: Django 'ne' lookup no longer fails when one side yields a tuple of parameters",
    "02e08bb fix: Django backend accepts a bare boolean field as a filter",
    "770b0fe fix: long property paths no longer exhaust the recursion limit while parsing",
    "6bb2574 fix: an empty argument list may contain whitespace",
    "952ce09 fix: date-time literals written with lower case 't' or 'z' are normalised",
]

if __name__ == "__main__":
    main()
