#!/usr/bin/env python3
"""Print a markdown table summarising the evidence files (one row per property)."""
import glob, json, os
HERE = os.path.dirname(os.path.dirname(os.path.abspath(__file__)))
man = {c["property_id"]: c for c in json.load(open(os.path.join(HERE, "MANIFEST.json")))["checks"]}
print("| property | level | tier | obligations | discharged | known | inconclusive | families | solver s | wall s |")
print("|---|---|---|---|---|---|---|---|---|---|")
for f in sorted(glob.glob(os.path.join(HERE, "evidence", "C*.json"))):
    e = json.load(open(f)); c = e["coverage"]
    fams = ", ".join(sorted(c.get("by_family", {}).keys()))[:160]
    print(f"| {e['property_id']} | {e['level']} | {e['tier']} | {c.get('obligations')} | {c.get('discharged')} | {c.get('known_findings')} | "
          f"{c.get('inconclusive')} | {fams} | {c.get('solver_s')} | {e['wall_s']} |")
