#!/usr/bin/env python3
"""Confirm a seeded change delivered by an independent sub-agent and run our checks against it.

usage: tools/seed.py <property> <n> [--checks C13,C05] [--tier quick|thorough] [--keep-as <id>]

1. in the agent's scratch worktree /tmp/mut/<property>: demo<n>.py passes on the clean tree; with mut<n>.diff applied the
   repository's test suite still reports 648 passed and the demo fails; the worktree is restored;
2. the patch is applied to /repo (git apply), the given checks are run, and /repo is restored (git checkout -- .);
3. with --keep-as the patch, demo and a meta.json are stored under /verif/seeded/<id>/.
"""
import argparse
import json
import os
import shutil
import subprocess
import sys
import time

HERE = os.path.dirname(os.path.dirname(os.path.abspath(__file__)))


def sh(cmd, cwd=None, timeout=3600):
    r = subprocess.run(cmd, shell=True, cwd=cwd, capture_output=True, text=True, timeout=timeout)
    return r.returncode, r.stdout + r.stderr


def main():
    ap = argparse.ArgumentParser()
    ap.add_argument("prop")
    ap.add_argument("n")
    ap.add_argument("--checks", default=None)
    ap.add_argument("--tier", default="quick")
    ap.add_argument("--keep-as", default=None)
    ap.add_argument("--needs", default="")
    ap.add_argument("--skip-confirm", action="store_true")
    ap.add_argument("--root", default="/tmp/mut")
    ap.add_argument("--from-seeded", default=None, help="re-run a kept change: a temporary worktree of /repo HEAD is created, "
                    "seeded/<id>/patch.diff applied, the checks run against it, and the worktree removed")
    a = ap.parse_args()
    wt = f"{a.root}/{a.prop}"
    diff, demo = f"{wt}/mut{a.n}.diff", f"demo{a.n}.py"
    tmp_wt = None
    if a.from_seeded:
        tmp_wt = wt = f"/tmp/seedwt_{a.from_seeded}_{os.getpid()}"
        sh(f"git -C /repo worktree add -q --detach {wt} HEAD")
        diff = os.path.join(HERE, "seeded", a.from_seeded, "patch.diff")
        shutil.copy(os.path.join(HERE, "seeded", a.from_seeded, "demo.py"), os.path.join(wt, f"demo{a.n}.py"))
        a.keep_as = a.keep_as or a.from_seeded
    try:
        return _main(a, wt, diff, demo)
    finally:
        if tmp_wt:
            sh(f"git -C /repo worktree remove --force {tmp_wt}")


def _main(a, wt, diff, demo):
    meta = {"property": a.prop, "patch": f"mut{a.n}.diff", "demo": demo, "needs": a.needs, "ran": []}
    if not a.skip_confirm:
        sh("git checkout -- . ", cwd=wt)
        rc0, out0 = sh(f"/venv/bin/python {demo}", cwd=wt)
        rca, outa = sh(f"git apply {diff}", cwd=wt)
        rct, outt = sh("/venv/bin/python -m pytest -q -p no:cacheprovider --timeout=900 --continue-on-collection-errors 2>&1 | tail -1", cwd=wt)
        rc1, out1 = sh(f"/venv/bin/python {demo}", cwd=wt)
        sh("git checkout -- .", cwd=wt)
        ok = rc0 == 0 and rca == 0 and "648 passed" in outt and rc1 != 0
        print(f"confirm: demo clean rc={rc0}; apply rc={rca}; tests: {outt.strip()[-60:]}; demo patched rc={rc1} -> {'CONFIRMED' if ok else 'NOT CONFIRMED'}")
        meta["confirmed"] = ok
        meta["ran"] += [f"demo on clean tree: exit {rc0}", f"tests with patch: {outt.strip()[-60:]}", f"demo with patch: exit {rc1}",
                        (out1.strip().splitlines() or [''])[-1][:200]]
        if not ok:
            print(out0[-500:], outa[-500:], out1[-500:])
            return 2
    checks = (a.checks or a.prop).split(",")
    # the checks are run against the scratch worktree (PYTHONPATH precedes the .pth entry that points to /repo), so
    # /repo itself is never modified and several seeded changes can be examined in parallel
    sh("git checkout -- .", cwd=wt)
    rc, out = sh(f"git apply {diff}", cwd=wt)
    if rc != 0:
        print("patch does not apply to the worktree:", out)
        return 2
    results = {}
    try:
        rc, where = sh(f"PYTHONPATH={wt} {HERE}/.venv/bin/python -c 'import odata_query; print(odata_query.__file__)'", cwd=HERE)
        assert wt in where, where
        for c in checks:
            t = time.time()
            rc, out = sh(f"PYTHONPATH={wt} VERIF_EVIDENCE_DIR=/tmp/w1/ev_{a.prop}_{a.n} ./vt check {c} --tier {a.tier}", cwd=HERE, timeout=7200)
            viol = [l for l in out.splitlines() if l.startswith("VIOLATION")]
            tail = [l for l in out.splitlines() if l.startswith(f"[{c}]")][-1:] or [out[-300:]]
            first = [l for l in out.splitlines() if l.startswith("  obligation=")][:2]
            results[c] = {"exit": rc, "violations": len(viol), "summary": tail[0], "first": first, "wall_s": round(time.time() - t)}
            print(f"{c} ({a.tier}): exit={rc} violations={len(viol)} | {tail[0]}")
            for f in first:
                print("   ", f[:260])
    finally:
        sh("git checkout -- .", cwd=wt)
    meta["checks"] = results
    meta["caught_by"] = [c for c, r in results.items() if r["exit"] == 1 and r["violations"]]
    if a.keep_as:
        d = os.path.join(HERE, "seeded", a.keep_as)
        os.makedirs(d, exist_ok=True)
        if os.path.abspath(diff) != os.path.abspath(os.path.join(d, "patch.diff")):
            shutil.copy(diff, os.path.join(d, "patch.diff"))
            shutil.copy(os.path.join(wt, demo), os.path.join(d, "demo.py"))
        mp = os.path.join(d, "meta.json")
        if os.path.exists(mp):
            old = json.load(open(mp))
            old.setdefault("checks", {}).update(results)
            old["caught_by"] = sorted(set(old.get("caught_by", [])) | set(meta["caught_by"]))
            if a.needs:
                old["needs"] = a.needs
            old["ran"] = old.get("ran", []) + [f"{c} {a.tier}: exit {r['exit']}, {r['violations']} violations" for c, r in results.items()]
            meta = old
        else:
            meta["ran"] += [f"{c} {a.tier}: exit {r['exit']}, {r['violations']} violations" for c, r in results.items()]
        json.dump(meta, open(mp, "w"), indent=1)
    return 0


if __name__ == "__main__":
    sys.exit(main())
